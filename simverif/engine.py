"""Run execution, replay and choice-sequence minimisation (runs inside batch worker processes)."""
import faulthandler
import hashlib
import importlib
import os
import sys
import time
import traceback

HERE = os.path.dirname(os.path.abspath(__file__))
if HERE not in sys.path:
    sys.path.insert(0, HERE)

from chooser import Chooser, mix          # noqa: E402
import world as W                         # noqa: E402

_real_time = time.time                    # captured before seams patch the clock
_real_perf = time.perf_counter


def load_prop(pid):
    return importlib.import_module('props.' + pid.lower())


def run_one(pid, seed, idx, tier, replay=None, keep_choices=False):
    """One simulated run = one exactly repeatable execution.  Returns a compact, picklable dict."""
    import seams
    mod = load_prop(pid)
    if replay is None:
        ch = Chooser(seed=mix('run', int(seed), pid, int(idx)))
    else:
        ch = Chooser(replay=replay)
    w = W.World(ch, prop=pid, tier=tier)
    w.run_index = idx
    status, err = 'ok', None
    t_wall = _real_perf()
    seams.begin_run(w)
    try:
        try:
            mod.scenario(w)
        except W.ExcludedRun as e:
            status, err = 'excluded', str(e)
        except W.SimEscape as e:
            status, err = 'harness_error', 'SimEscape: %s' % (e,)
        except Exception:
            status, err = 'harness_error', traceback.format_exc()
    finally:
        seams.end_run(w)
    res = {'i': idx, 'status': status, 'err': err,
           'viol': [v.as_dict() for v in w.violations],
           'digest': w.digest(), 'cov': w.cov_sig() if hasattr(w, 'cov_sig') else str(w.cov),
           'nontrivial': bool(getattr(w, 'nontrivial', False)),
           'faults': dict(w.faults), 'probes': dict(w.probes), 'simtime': w.now,
           'nev': len(w.events), 'nchoices': len(ch.record), 'fault_free': w.fault_free,
           'overrun': ch.overrun, 'wall': round(_real_perf() - t_wall, 3),
           'timing_dependent': bool(getattr(w, 'timing_dependent', False))}
    if keep_choices or w.violations or status != 'ok':
        res['choices'] = ch.values()
        res['labels'] = [l for l, _ in ch.record]
        res['sample'] = W.canon(w.sample)
        keep = ('fault', 'pool.create', 'pool.worker', 'pool.dispatch', 'pool.done', 'op', 'call', 'rng.history',
                'violation')
        res['trace'] = [list(e) for e in w.events if e[3] in keep][:300]
    return res


def run_chunk(args):
    pid, seed, indices, tier, keep_first, timeout = args
    faulthandler.dump_traceback_later(timeout, exit=True)
    try:
        out = []
        for i in indices:
            out.append(run_one(pid, seed, i, tier, keep_choices=(i < keep_first)))
        return out
    finally:
        faulthandler.cancel_dump_traceback_later()


def _has(res, key):
    return any((v['class'], v['signature']) == tuple(key) for v in res['viol'])


def shrink(args):
    """Minimise a failing choice sequence while the same (class, signature) persists."""
    pid, tier, choices, key, max_runs, max_s = args
    faulthandler.dump_traceback_later(max_s * 4 + 1500, exit=True)      # a single attempt may contain a timed-out call
    t0 = _real_perf()
    runs = [0]
    best = list(choices)

    def attempt(vals):
        if runs[0] >= max_runs or _real_perf() - t0 > max_s:
            return None
        runs[0] += 1
        r = run_one(pid, 0, -1, tier, replay=vals, keep_choices=True)
        if r['status'] != 'harness_error' and _has(r, key):
            return r
        return None

    base = attempt(best)
    if base is None:
        faulthandler.cancel_dump_traceback_later()
        return {'ok': False, 'runs': runs[0], 'choices': best}
    best = base['choices']
    last = base
    improved = True
    while improved:
        improved = False
        # strip trailing zeros (exhausted record == zeros)
        while best and best[-1] == 0:
            best = best[:-1]
        # zero whole blocks first: keeps the alignment of the remaining choices (0 = plainest alternative)
        size = max(1, len(best) // 2)
        while size >= 1:
            i = 0
            while i < len(best):
                if any(best[i:i + size]):
                    cand = best[:i] + [0] * len(best[i:i + size]) + best[i + size:]
                    r = attempt(cand)
                    if r is not None:
                        best, last, improved = _strip(r['choices']), r, True
                i += size
            size //= 2
        size = max(1, len(best) // 2)
        while size >= 1:
            i = len(best) - size
            while i >= 0:
                cand = best[:i] + best[i + size:]
                r = attempt(cand)
                if r is not None and len(r['choices']) <= len(last['choices']):
                    best, last, improved = _strip(r['choices']), r, True
                    i = min(i, len(best) - size)
                else:
                    i -= max(1, size // 2) if size > 1 else 1
            size //= 2
        for i in range(len(best)):
            if i >= len(best):
                break
            v = best[i]
            if v == 0:
                continue
            for nv in (0, v // 2, v - 1):
                if nv >= v or nv < 0:
                    continue
                cand = best[:i] + [nv] + best[i + 1:]
                r = attempt(cand)
                if r is not None:
                    best, last, improved = _strip(r['choices']), r, True
                    break
        if runs[0] >= max_runs or _real_perf() - t0 > max_s:
            break
    # canonical final execution + exact-replay confirmation
    final = run_one(pid, 0, -1, tier, replay=best, keep_choices=True)
    again = run_one(pid, 0, -1, tier, replay=final['choices'], keep_choices=True)
    faulthandler.cancel_dump_traceback_later()
    ok = _has(final, key) and _has(again, key) and (final['digest'] == again['digest'] or final.get('timing_dependent'))
    return {'ok': ok, 'runs': runs[0], 'choices': final['choices'], 'labels': final['labels'],
            'digest': final['digest'], 'viol': final['viol'], 'sample': final['sample'], 'trace': final.get('trace'),
            'from_len': len(choices), 'to_len': len(final['choices'])}


def _strip(vals):
    vals = list(vals)
    while vals and vals[-1] == 0:
        vals.pop()
    return vals


def repo_digest():
    import seams
    root = os.path.join(seams.repo_path(), 'emd')
    h = hashlib.sha256()
    for name in sorted(os.listdir(root)):
        if name.endswith('.py'):
            with open(os.path.join(root, name), 'rb') as f:
                h.update(name.encode())
                h.update(f.read())
    return h.hexdigest()[:16]
