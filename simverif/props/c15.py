"""C15 - the cycle container keeps metrics, subsets and chains coherent; cache on/off changes nothing.

Stateful simulation: the same drawn operation history (with injected user-callback failures, wrong-length
additions and conditions on missing metrics) is applied to a container with the slice cache on, to one
with the cache off (the fast path skipped) and to a small executable reference model; all three are
compared after every operation.
"""
import collections
import re

import numpy as np

import world as W
from signals import draw_phase
from props import common as C

ID = 'C15'
QUICK_RUNS = 1500
THOROUGH_RUNS = 200000
MAX_EXCLUDED_FRACTION = 0.25
SHRINK_RUNS = 300
SHRINK_S = 60
RULE = ('one run = one phase series, two containers (cache on / off) and one drawn operation history; distinct = '
        'distinct abstract history (operation kinds with mode, function, dtype, comparator set, literal kinds, '
        'fault kind and outcome); non-trivial = at least one metric operation and one subset selection or export '
        'were performed after construction')
COMPONENTS = {'real': ['emd.cycles.Cycles (both cache settings)', 'emd._cycles_support slice cache and label lookup',
                       'get_subset_vector / get_chain_vector', 'pandas export'],
              'stub': ['user metric callbacks (can be made to raise at a drawn cycle)', 'clock']}
ASSUMPTIONS = ['the container\'s own cycle vector defines which samples belong to a cycle (whether it is right is C12)',
               'augmented mode has no independent written definition: it is checked for cache on/off agreement, '
               'length, and against the documented picture only where the previous cycle\'s phase rises strictly',
               'after a selection that raised, selection state is unspecified until the next successful selection; '
               'after a metric callback that raised, that metric may be absent or keep its previous value']

COMPARATORS = ['>', '<', '>=', '<=', '==', '!=']
OPS = {'>': np.greater, '<': np.less, '>=': np.greater_equal, '<=': np.less_equal, '==': np.equal, '!=': np.not_equal}


# operation mixes: default / selection-heavy (subsets, chains and repeated queries) / metric-heavy
PROFILES = [[6, 2, 2, 4, 2, 2, 3], [2, 1, 1, 6, 5, 6, 3], [9, 4, 3, 2, 1, 1, 2]]
CHAIN_METRICS = ('chain_ind', 'chain_position', 'chain_start', 'chain_end', 'chain_len_samples', 'chain_len_cycles')


class CallbackFault(Exception):
    pass


def _funcs(emdmod):
    cy = emdmod.cycles
    return collections.OrderedDict([
        ('mean', np.mean), ('max', np.max), ('min', np.min), ('sum', np.sum), ('len', len),
        ('first', cy.cf_start_value), ('last', cy.cf_end_value),
        ('ptp', lambda x: float(np.max(x) - np.min(x))), ('mid', lambda x: float(np.ravel(x)[len(x) // 2])),
        ('median', np.median)])


class Model:
    def __init__(self, emdmod, cycle_vect, phase):
        self.emd = emdmod
        self.cv = np.asarray(cycle_vect).reshape(-1)
        self.phase = np.asarray(phase).reshape(-1)
        self.n = int(self.cv.max()) + 1
        self.samples = [np.where(self.cv == i)[0] for i in range(self.n)]
        self.metrics = collections.OrderedDict()
        self.aug = set()                 # names of metrics computed in augmented mode
        self.unspecified = set()         # metrics whose value is unspecified after a failed callback
        self.subset_vect = None
        self.chain_vect = None
        self.conditions = None
        self.sel_valid = True

    def cycle_metric(self, vals, func, dtype):
        out = np.array([func(vals[s]) for s in self.samples])
        if dtype is not None:
            out = out.astype(dtype)
        return out

    def aug_samples(self, i):
        """Documented picture: from the first sample of the previous cycle beyond 3/2 pi to the end of cycle i.
        Returns (indices or None, trusted) - trusted only where the previous cycle's phase rises strictly."""
        if i == 0:
            return None, True
        prev = self.samples[i - 1]
        pp = self.phase[prev]
        cand = np.where(pp > 1.5 * np.pi)[0]
        # every reasonable reading of "back to the trough of the previous cycle" picks the same samples only if
        # the previous cycle rises strictly, crosses 3/2 pi inside the cycle and no sample sits exactly on 3/2 pi
        strictly = bool(np.all(np.diff(pp) > 0)) and not np.any(pp == 1.5 * np.pi) and len(cand) > 0 \
            and pp[0] < 1.5 * np.pi
        if len(cand) == 0:
            return None, False
        return np.arange(prev[cand[0]], self.samples[i][-1] + 1), strictly

    @staticmethod
    def parse(cond):
        m = re.match(r'^([A-Za-z_0-9]+)(==|!=|<=|>=|<|>)(.+)$', cond)
        return m.group(1), OPS[m.group(2)], float(m.group(3))

    def matching(self, conditions):
        if isinstance(conditions, str):
            conditions = [conditions]
        ok = np.ones(self.n, dtype=bool)
        for c in conditions:
            name, op, val = self.parse(c)
            ok &= op(self.metrics[name], val)
        return ok

    def pick(self, conditions):
        valid = self.matching(conditions)
        sv = np.full(self.n, -1, dtype=int)
        sv[valid] = np.arange(int(valid.sum()))
        idx = np.where(valid)[0]
        chain = np.zeros(len(idx), dtype=int)
        c = 0
        for k in range(1, len(idx)):
            if idx[k] != idx[k - 1] + 1:
                c += 1
            chain[k] = c
        self.conditions = conditions
        self.subset_vect, self.chain_vect = sv, chain
        ci = np.full(self.n, -1, dtype=int)
        ci[idx] = chain
        self.metrics['chain_ind'] = ci
        self.sel_valid = True

    def chain_timings(self):
        idx = np.where(self.subset_vect > -1)[0]
        out = {k: np.full(self.n, -1, dtype=int) for k in
               ('chain_start', 'chain_end', 'chain_len_samples', 'chain_len_cycles', 'chain_position')}
        for c in range(int(self.chain_vect.max()) + 1 if len(self.chain_vect) else 0):
            cyc = idx[self.chain_vect == c]
            samp = np.concatenate([self.samples[i] for i in cyc])
            out['chain_start'][cyc] = samp[0]
            out['chain_end'][cyc] = samp[-1]
            out['chain_len_samples'][cyc] = len(samp)
            out['chain_len_cycles'][cyc] = len(cyc)
            out['chain_position'][cyc] = np.arange(len(cyc))
        for k, v in out.items():
            self.metrics[k] = v


def _veq(a, b):
    a, b = np.asarray(a), np.asarray(b)
    if a.shape != b.shape:
        return False
    try:
        af, bf = a.astype(float), b.astype(float)
    except (TypeError, ValueError):
        return bool(np.all(a == b))
    if not np.array_equal(np.isnan(af), np.isnan(bf)):
        return False
    m = ~np.isnan(af)
    if not m.any():
        return True
    scale = np.maximum(1.0, np.maximum(np.abs(af[m]), np.abs(bf[m])))
    return bool(np.all(np.abs(af[m] - bf[m]) <= 1e-12 * scale))


def scenario(w):
    ch = w.ch
    emd = C.emd()
    w.trace_on = False
    cy = emd.cycles
    phase, pdesc = draw_phase(ch, 40, 400)
    N = len(phase)
    hist = []
    w.sample = {'phase': pdesc, 'history': hist}
    try:
        con = cy.Cycles(phase.copy(), use_cache=True)
        coff = cy.Cycles(phase.copy(), use_cache=False)
    except Exception as e:
        C.reraise_if_harness(e)
        raise W.ExcludedRun('container construction raised %s (no complete wrap in the phase)' % type(e).__name__)
    if con.ncycles < 2 or 'is_good' not in con.metrics or 'is_good' not in coff.metrics:
        raise W.ExcludedRun('fewer than two cycles')
    if not np.array_equal(con.cycle_vect, coff.cycle_vect):
        raise W.HarnessError('containers disagree on the cycle vector')
    M = Model(emd, coff.cycle_vect, phase)
    M.metrics['is_good'] = M.cycle_metric(phase, cy.is_good, int)
    funcs = _funcs(emd)
    t = np.arange(N)
    series = collections.OrderedDict([
        ('phase', phase.copy()), ('wave', (1 + 0.4 * np.sin(2 * np.pi * t / max(N, 1) * 3)) * np.sin(phase)),
        ('idx', t.astype(float)), ('cv', None)])
    counts = {'metric': 0, 'select': 0}
    used_conds = []

    def both(thunk_on, thunk_off):
        r = []
        for th in (thunk_on, thunk_off):
            try:
                r.append((th(), None))
            except CallbackFault as e:
                r.append((None, e))
            except Exception as e:
                C.reraise_if_harness(e)
                r.append((None, e))
        return r

    def compare(after):
        """Invariants after every operation.  False after a violation."""
        for label, cobj in (('cache-on', con), ('cache-off', coff)):
            for name, v in cobj.metrics.items():
                if len(v) != cobj.ncycles:
                    w.violation('metric-length', label, 'after %s metric %r has %d entries for %d cycles (history: %s)'
                                % (after, name, len(v), cobj.ncycles, hist))
                    return False
        if list(con.metrics.keys()) != list(coff.metrics.keys()):
            w.violation('cache-dependence', 'metric-names', 'after %s the cache-on container holds metrics %s, the cache-off container %s'
                        % (after, list(con.metrics), list(coff.metrics)))
            return False
        for name in con.metrics:
            if name in M.unspecified:
                continue
            a, b = con.metrics[name], coff.metrics[name]
            if not _veq(a, b):
                bad = _first_diff(a, b)
                w.violation('cache-dependence', ('augmented' if name in M.aug else 'cycle') + ':' + _pos(bad, con.ncycles),
                            'after %s metric %r differs between cache on and off at cycle %s of %d: %r vs %r (history: %s)'
                            % (after, name, bad, con.ncycles, _at(a, bad), _at(b, bad), hist))
                return False
        for name, mv in M.metrics.items():
            if name in M.unspecified:
                continue
            for label, cobj in (('cache-on', con), ('cache-off', coff)):
                if name not in cobj.metrics:
                    w.violation('metric-missing', label, 'after %s metric %r is missing from the %s container' % (after, name, label))
                    return False
                got = cobj.metrics[name]
                if name in M.aug:
                    trusted = M.aug_trusted[name]
                    g = np.asarray(got, dtype=float)
                    if len(g) == len(mv) and not _veq(g[trusted], np.asarray(mv, dtype=float)[trusted]):
                        bad = [i for i in np.where(trusted)[0] if not _veq(g[i:i + 1], np.asarray(mv, dtype=float)[i:i + 1])][0]
                        w.violation('metric-value', 'augmented:%s:%s' % (label, _pos(bad, con.ncycles)),
                                    'after %s augmented metric %r of cycle %d is %r in the %s container, the function on that '
                                    'cycle\'s augmented samples gives %r' % (after, name, bad, g[bad], label, mv[bad]))
                        return False
                elif not _veq(got, mv):
                    bad = _first_diff(got, mv)
                    w.violation('metric-value', '%s:%s' % (label, _pos(bad, con.ncycles)),
                                'after %s metric %r of cycle %s (of %d) is %r in the %s container but the function applied to '
                                'that cycle\'s samples gives %r (history: %s)' % (after, name, bad, con.ncycles, _at(got, bad), label, _at(mv, bad), hist))
                    return False
        for name in con.metrics:
            if name not in M.metrics and name not in M.unspecified:
                w.violation('metric-unexpected', name if name.startswith('chain') else 'other',
                            'after %s the containers hold metric %r which no operation should have stored' % (after, name))
                return False
        if M.sel_valid:
            for label, cobj in (('cache-on', con), ('cache-off', coff)):
                if (cobj.subset_vect is None) != (M.subset_vect is None):
                    w.violation('subset', label + ':presence', 'after %s subset presence differs from the model' % after)
                    return False
                if M.subset_vect is not None:
                    if not np.array_equal(np.asarray(cobj.subset_vect).reshape(-1), M.subset_vect):
                        w.violation('subset', 'vector', 'after %s the selected subset is %s, the conditions %r select %s (history: %s)'
                                    % (after, np.asarray(cobj.subset_vect).reshape(-1).tolist(), M.conditions, M.subset_vect.tolist(), hist))
                        return False
                    if not np.array_equal(np.asarray(cobj.chain_vect).reshape(-1), M.chain_vect):
                        w.violation('chains', 'vector', 'after %s chains are %s, maximal runs of consecutive selected cycles are %s'
                                    % (after, np.asarray(cobj.chain_vect).reshape(-1).tolist(), M.chain_vect.tolist()))
                        return False
        return requery(after)

    def requery(after):
        """Cross-invariant after every step: every query asked earlier in this history (plus two canonical ones per
        metric) is asked again and must have the answer the model gives for the *current* state."""
        for name, mv in M.metrics.items():
            if name in M.aug or name in M.unspecified or any(Model.parse(c)[0] == name for c in used_conds):
                continue
            vals = np.asarray(mv, dtype=float)
            vals = vals[np.isfinite(vals)]
            if len(vals):
                used_conds.append('%s==%r' % (name, float(vals[0])))
                used_conds.append('%s>%r' % (name, float(np.median(vals))))
        # the table export of each container agrees with that container's own stored metrics - after every step,
        # so an export taken before a metric was overwritten can never be served again
        for label, cobj in (('cache-on', con), ('cache-off', coff)):
            try:
                df = cobj.get_metric_dataframe()
            except Exception as e:
                C.reraise_if_harness(e)
                w.violation('export', 'raised:all', 'after %s get_metric_dataframe() raised %r in the %s container' % (after, e, label))
                return False
            if list(df.columns) != list(cobj.metrics.keys()) or len(df) != cobj.ncycles:
                w.violation('export', 'shape:all', 'after %s the full export has columns %s / %d rows, the container holds %s / %d cycles'
                            % (after, list(df.columns), len(df), list(cobj.metrics.keys()), cobj.ncycles))
                return False
            for name2, v in cobj.metrics.items():
                if len(v) == len(df) and not _veq(df[name2].to_numpy(), np.asarray(v)):
                    w.violation('export', 'values:all', 'after %s the exported column %r is %s but the %s container stores %s (history: %s)'
                                % (after, name2, df[name2].to_numpy().tolist(), label, np.asarray(v).tolist(), hist))
                    return False
        for c in used_conds[-24:]:
            name = Model.parse(c)[0]
            if name not in M.metrics or name in M.aug or name in M.unspecified:
                continue
            want = M.matching([c])
            for label, cobj in (('cache-on', con), ('cache-off', coff)):
                try:
                    got = np.asarray(cobj.get_matching_cycles(c)).astype(bool)
                except Exception as e:
                    C.reraise_if_harness(e)
                    w.violation('matching', 'requery-raised', 'after %s get_matching_cycles(%r) raised %r in the %s container' % (after, c, e, label))
                    return False
                w.probe('requeries')
                if not np.array_equal(got, want):
                    w.violation('matching', 'requery:' + label,
                                'after %s get_matching_cycles(%r) answers %s in the %s container, but the stored metric is %s '
                                '(history: %s)' % (after, c, got.astype(int).tolist(), label, np.asarray(M.metrics[name]).tolist(), hist))
                    return False
        return True

    def cond_literal(name):
        vals = np.asarray(M.metrics[name], dtype=float)
        vals = vals[np.isfinite(vals)]
        kind = ch.pick('cond.literal', 6)
        if len(vals) == 0:
            v = 0.0
        elif kind == 0:
            v = float(np.median(vals))
        elif kind == 1:
            v = float(vals[ch.pick('cond.pickval', len(vals))])
        elif kind == 2:
            v = float(np.min(vals)) - 1.0
        elif kind == 3:
            v = -abs(float(np.mean(vals)))
        elif kind == 4:
            v = float('%.3e' % np.mean(vals))
            return '%.3e' % v, 'exp'
        else:
            v = float(int(np.median(vals)))
            return '%d' % int(v), 'int'
        return repr(v), ['median', 'value', 'below-min', 'negative'][kind]

    def draw_conditions(allow_missing=True):
        names = [k for k in M.metrics if k not in M.unspecified and k not in M.aug]
        nc = 1 + ch.weighted('cond.n', [3, 2, 1])
        out, kinds = [], []
        for _ in range(nc):
            if allow_missing and ch.weighted('fault.missing_metric', [15, 1]) == 1:
                out.append('nosuchmetric>0')
                kinds.append('missing')
                w.fault('missing_metric')
                continue
            reusable = [c for c in used_conds if Model.parse(c)[0] in names]
            if reusable and ch.weighted('cond.reuse', [1, 1]) == 1:
                # the same query again, after the container's state has moved on
                c = reusable[ch.pick('cond.reuse.which', len(reusable))]
                out.append(c)
                kinds.append(re.match(r'^[A-Za-z_0-9]+(==|!=|<=|>=|<|>)', c).group(1) + 'reused')
                w.probe('condition_reused')
                continue
            derived = [k for k in names if k in CHAIN_METRICS]
            if profile == 1 and derived and ch.weighted('cond.derived', [1, 2]) == 1:
                name = derived[ch.pick('cond.metric.derived', len(derived))]
            else:
                name = names[ch.pick('cond.metric', len(names))]
            comp = COMPARATORS[ch.pick('cond.comp', 6)]
            lit, lk = cond_literal(name)
            out.append('%s%s%s' % (name, comp, lit))
            kinds.append(comp + lk)
            used_conds.append(out[-1])
        return out, kinds

    profile = ch.pick('profile', len(PROFILES))      # swarm: the workload mix varies per run
    if not compare('construction'):
        return

    nops = 1 + ch.pick('nops', 12 if w.tier == 'quick' else 30)
    M.aug_trusted = {}
    for step in range(nops):
        kind = ch.wchoice('op', ['compute', 'add', 'timings', 'pick', 'chain_timings', 'matching', 'export'],
                          PROFILES[profile])
        if kind == 'compute':
            name = 'm%d' % ch.pick('metric.name', 5)
            sname = list(series)[ch.pick('metric.series', len(series))]
            fname = list(funcs)[ch.pick('metric.func', len(funcs))]
            mode = ch.wchoice('metric.mode', ['cycle', 'augmented'], [3, 1])
            dtype = [None, int, float][ch.pick('metric.dtype', 3)] if mode == 'cycle' else None
            if sname == 'cv':
                fname = 'len'
            func = funcs[fname]
            fault_at = None
            if ch.weighted('fault.callback_raise', [7, 1]) == 1:
                fault_at = ch.pick('fault.callback_at', M.n)

            def mk(f, at):
                cnt = [0]

                def g(x):
                    if at is not None and cnt[0] == at:
                        raise CallbackFault('user metric function failed at call %d' % at)
                    cnt[0] += 1
                    try:
                        return f(x)
                    except Exception as e:      # the user's function objects to what the container handed it
                        e._sim_transported = True
                        raise
                return g
            before = [None if name not in c.metrics else np.array(c.metrics[name], copy=True) for c in (con, coff)]
            sv_on = con.cycle_vect if sname == 'cv' else series[sname].copy()
            sv_off = coff.cycle_vect if sname == 'cv' else series[sname].copy()
            r = both(lambda: con.compute_cycle_metric(name, sv_on, mk(func, fault_at), dtype=dtype, mode=mode),
                     lambda: coff.compute_cycle_metric(name, sv_off, mk(func, fault_at), dtype=dtype, mode=mode))
            desc = 'compute(%s,%s,%s,%s,%s%s)' % (name, sname, fname, mode, getattr(dtype, '__name__', None),
                                                   ',raise@%d' % fault_at if fault_at is not None else '')
            raised = [e is not None for _, e in r]
            if fault_at is not None and any(raised):
                w.fault('callback_raise', at=fault_at)
            hist.append(desc + (' -> raised' if any(raised) else ''))
            counts['metric'] += 1
            if raised[0] != raised[1]:
                w.violation('cache-dependence', mode + ':raise',
                            '%s: cache-on %s, cache-off %s' % (desc, 'raised %r' % (r[0][1],) if raised[0] else 'returned',
                                                               'raised %r' % (r[1][1],) if raised[1] else 'returned'))
                return
            if any(raised):
                if fault_at is None and not isinstance(r[0][1], CallbackFault):
                    w.violation('metric-compute-failed', mode + ':' + type(r[0][1]).__name__,
                                '%s raised %r in both containers although the function accepts every cycle\'s samples' % (desc, r[0][1]))
                    return
                # narrow relaxation: the failed metric may be absent or keep its previous value
                kept = all((b is not None and name in c.metrics and _veq(c.metrics[name], b))
                           for b, c in zip(before, (con, coff)))
                gone = name not in con.metrics and name not in coff.metrics
                if kept:
                    pass
                elif gone:
                    M.metrics.pop(name, None)
                    M.aug.discard(name)
                else:
                    w.violation('metric-after-failed-callback', mode,
                                '%s: after the callback raised, metric %r is neither absent nor its previous value' % (desc, name))
                    return
            else:
                sv = M.cv.reshape(-1, 1) if sname == 'cv' else series[sname]
                M.unspecified.discard(name)
                if mode == 'cycle':
                    M.metrics[name] = M.cycle_metric(sv, func, dtype)
                    M.aug.discard(name)
                else:
                    vals = np.full(M.n, np.nan)
                    trusted = np.zeros(M.n, dtype=bool)
                    for i in range(M.n):
                        inds, tr = M.aug_samples(i)
                        trusted[i] = tr
                        if inds is not None:
                            try:
                                vals[i] = func(sv[inds])
                            except Exception:
                                trusted[i] = False
                    M.metrics[name] = vals
                    M.aug.add(name)
                    M.aug_trusted[name] = trusted
            if not compare(desc):
                return
        elif kind == 'add':
            name = 'a%d' % ch.pick('add.name', 3)
            wrong = ch.weighted('fault.wrong_length', [5, 1]) == 1
            n = M.n + (1 + ch.pick('add.extra', 2)) * (1 if ch.pick('add.sign', 2) == 0 else -1) if wrong else M.n
            n = max(n, 0)
            base = np.linspace(-1.5, 2.5, n) if n else np.zeros(0)
            flavour = ch.choice('add.flavour', ['float', 'ints', 'with_nan'])
            if flavour == 'ints':
                base = np.arange(n).astype(float)
            elif flavour == 'with_nan' and n > 1:
                base[n // 2] = np.nan
            dtype = [None, int][ch.pick('add.dtype', 2)]
            if wrong:
                w.fault('wrong_length_add')
            r = both(lambda: con.add_cycle_metric(name, base.copy(), dtype=dtype),
                     lambda: coff.add_cycle_metric(name, base.copy(), dtype=dtype))
            desc = 'add(%s,len%+d,%s,%s)' % (name, n - M.n, flavour, getattr(dtype, '__name__', None))
            hist.append(desc)
            counts['metric'] += 1
            if (r[0][1] is None) != (r[1][1] is None):
                w.violation('cache-dependence', 'add:raise', '%s behaves differently with cache on and off' % desc)
                return
            if not wrong and r[0][1] is None:
                v = base.copy()
                if dtype is int:
                    v[np.isnan(v)] = -1
                    v = v.astype(int)
                M.metrics[name] = v
                M.aug.discard(name)
                M.unspecified.discard(name)
            elif not wrong:
                w.violation('metric-add-failed', type(r[0][1]).__name__, '%s raised %r' % (desc, r[0][1]))
                return
            if not compare(desc):
                return
        elif kind == 'timings':
            r = both(con.compute_cycle_timings, coff.compute_cycle_timings)
            hist.append('timings')
            counts['metric'] += 1
            if r[0][1] is not None or r[1][1] is not None:
                w.violation('metric-compute-failed', 'timings', 'compute_cycle_timings raised %r / %r' % (r[0][1], r[1][1]))
                return
            M.metrics['start_sample'] = np.array([s[0] for s in M.samples], dtype=int)
            M.metrics['stop_sample'] = np.array([s[-1] for s in M.samples], dtype=int)
            M.metrics['duration'] = np.array([len(s) for s in M.samples], dtype=int)
            for k in ('start_sample', 'stop_sample', 'duration'):
                M.aug.discard(k)
                M.unspecified.discard(k)
            if not compare('compute_cycle_timings'):
                return
        elif kind == 'pick':
            conds, kinds = draw_conditions()
            r = both(lambda: con.pick_cycle_subset(list(conds)), lambda: coff.pick_cycle_subset(list(conds)))
            desc = 'pick(%s)' % ','.join(kinds)
            counts['select'] += 1
            raised = [e is not None for _, e in r]
            hist.append('pick(%s)' % ' & '.join(conds) + (' -> raised %s' % type(r[0][1]).__name__ if raised[0] else ''))
            if raised[0] != raised[1]:
                w.violation('cache-dependence', 'pick:raise', 'pick_cycle_subset(%r) behaves differently with cache on and off' % (conds,))
                return
            if 'missing' in kinds:
                if not raised[0]:
                    w.violation('subset', 'missing-metric-accepted', 'pick_cycle_subset(%r) accepted a condition on a missing metric' % (conds,))
                    return
                M.sel_valid = False
                M.unspecified.add('chain_ind')
                continue
            if raised[0]:
                nsel = int(M.matching(conds).sum())
                w.violation('subset', 'pick-raised:%s' % ('empty-selection' if nsel == 0 else 'nonempty'),
                            'pick_cycle_subset(%r) raised %r; the conditions select %d of %d cycles (history: %s)'
                            % (conds, r[0][1], nsel, M.n, hist))
                return
            M.pick(conds)
            M.unspecified.discard('chain_ind')
            M.aug.discard('chain_ind')
            if int((M.subset_vect > -1).sum()) == 0:
                w.probe('empty_selection')
            if len(M.chain_vect) and M.chain_vect.max() >= 1:
                w.probe('multiple_chains')
            if not compare(desc + ' ' + ' & '.join(conds)):
                return
        elif kind == 'chain_timings':
            r = both(con.compute_chain_timings, coff.compute_chain_timings)
            raised = [e is not None for _, e in r]
            hist.append('chain_timings' + (' -> raised' if raised[0] else ''))
            if raised[0] != raised[1]:
                w.violation('cache-dependence', 'chain_timings:raise', 'compute_chain_timings behaves differently with cache on and off')
                return
            if M.subset_vect is None or not M.sel_valid:
                if M.subset_vect is None and not raised[0]:
                    w.violation('chains', 'timings-without-subset', 'compute_chain_timings succeeded although no subset was ever selected')
                    return
                if raised[0] or not M.sel_valid:
                    for k in ('chain_start', 'chain_end', 'chain_len_samples', 'chain_len_cycles', 'chain_position'):
                        if not (k in con.metrics and k in M.metrics and _veq(con.metrics[k], M.metrics[k])):
                            M.unspecified.add(k) if k in con.metrics else None
                    if not M.sel_valid:
                        for k in ('chain_start', 'chain_end', 'chain_len_samples', 'chain_len_cycles', 'chain_position'):
                            M.unspecified.add(k)
                    continue
            if raised[0]:
                nsel = int((M.subset_vect > -1).sum())
                w.violation('chains', 'timings-raised:%s' % ('empty-selection' if nsel == 0 else 'nonempty'),
                            'compute_chain_timings raised %r with %d selected cycles (history: %s)' % (r[0][1], nsel, hist))
                return
            M.chain_timings()
            for k in ('chain_start', 'chain_end', 'chain_len_samples', 'chain_len_cycles', 'chain_position'):
                M.unspecified.discard(k)
            if not compare('compute_chain_timings'):
                return
        elif kind == 'matching':
            conds, kinds = draw_conditions(allow_missing=False)
            arg = conds[0] if len(conds) == 1 and ch.flag('matching.as_str', 1, 2) else conds
            r = both(lambda: con.get_matching_cycles(arg), lambda: coff.get_matching_cycles(arg))
            hist.append('matching(%s)' % ' & '.join(conds))
            counts['select'] += 1
            want = M.matching(conds)
            for (res, e), label in zip(r, ('cache-on', 'cache-off')):
                if e is not None:
                    w.violation('matching', 'raised', 'get_matching_cycles(%r) raised %r' % (arg, e))
                    return
                if not np.array_equal(np.asarray(res).astype(bool), want):
                    w.violation('matching', ','.join(sorted(set(k[:2].rstrip('mvbneid') for k in kinds))),
                                'get_matching_cycles(%r) is %s but the conditions hold for %s (metrics: %s)' % (
                                    arg, np.asarray(res).astype(int).tolist(), want.astype(int).tolist(),
                                    {c: np.asarray(M.metrics[M.parse(c)[0]]).tolist() for c in conds}))
                    return
        else:   # export
            how = ch.choice('export.how', ['all', 'subset', 'conditions', 'both'])
            conds = None
            if how in ('conditions', 'both'):
                conds, kinds = draw_conditions(allow_missing=False)
            kw = {'subset': how in ('subset', 'both'), 'conditions': conds}
            r = both(lambda: con.get_metric_dataframe(**kw), lambda: coff.get_metric_dataframe(**kw))
            hist.append('export(%s%s)' % (how, ':' + ' & '.join(conds) if conds else ''))
            counts['select'] += 1
            if how == 'both':
                if r[0][1] is None or r[1][1] is None:
                    w.violation('export', 'both-accepted', 'get_metric_dataframe(subset=True, conditions=...) did not raise')
                    return
                continue
            if how == 'subset' and not M.sel_valid:
                continue
            if any(n in M.unspecified for n in con.metrics):
                continue
            eff = conds if how == 'conditions' else (M.conditions if how == 'subset' else None)
            if eff is not None and any(Model.parse(c)[0] in M.aug or Model.parse(c)[0] in M.unspecified
                                       or Model.parse(c)[0] not in M.metrics for c in eff):
                # the stored conditions refer to a metric that has since been recomputed in augmented mode (or
                # is unspecified): the model has no exact values for it, so only cache on/off agreement is judged
                if r[0][1] is None and r[1][1] is None and not (list(r[0][0].columns) == list(r[1][0].columns)
                                                                 and len(r[0][0]) == len(r[1][0])):
                    w.violation('cache-dependence', 'export', 'export %s differs between cache on and off' % how)
                    return
                continue
            for (df, e), label, cobj in zip(r, ('cache-on', 'cache-off'), (con, coff)):
                if e is not None:
                    w.violation('export', 'raised:' + how, 'get_metric_dataframe(%r) raised %r (history: %s)' % (kw, e, hist))
                    return
                keep = np.ones(M.n, dtype=bool) if eff is None else M.matching(eff)
                cols = list(cobj.metrics.keys())
                want_cols = (['index'] if eff is not None else []) + cols
                if list(df.columns) != want_cols or len(df) != int(keep.sum()):
                    w.violation('export', 'shape:' + how, 'export %s has columns %s and %d rows; expected %s and %d rows'
                                % (how, list(df.columns), len(df), want_cols, int(keep.sum())))
                    return
                if eff is not None and not np.array_equal(df['index'].to_numpy(), np.where(keep)[0]):
                    w.violation('export', 'rows:' + how, 'export %s kept cycles %s, the conditions select %s'
                                % (how, df['index'].to_numpy().tolist(), np.where(keep)[0].tolist()))
                    return
                for c in cols:
                    if c in M.metrics and c not in M.aug:
                        if not _veq(df[c].to_numpy(), np.asarray(M.metrics[c])[keep]):
                            w.violation('export', 'values:' + how, 'export %s column %r disagrees with the stored metric' % (how, c))
                            return

    w.cov = tuple(re.sub(r'[-+]?\d+\.?\d*(e[-+]?\d+)?', '#', h) for h in hist)
    w.nontrivial = counts['metric'] >= 1 and counts['select'] >= 1


def _first_diff(a, b):
    a, b = np.asarray(a), np.asarray(b)
    if a.shape != b.shape:
        return None
    for i in range(len(a)):
        if not _veq(a[i:i + 1], b[i:i + 1]):
            return i
    return None


def _at(a, i):
    return None if i is None else np.asarray(a)[i].tolist()


def _pos(i, n):
    if i is None:
        return 'shape'
    if i == 0:
        return 'first'
    if i == n - 1:
        return 'last'
    return 'middle'
