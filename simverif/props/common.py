"""Helpers shared by the property scenarios."""
import numpy as np

import seams
import world as W

DURMODELS = ['unit', 'uniform', 'bimodal', 'zero']


def draw_poolcfg(w, allow_spawn=True, allow_respawn=True):
    ch = w.ch
    cfg = {}
    cfg['start'] = ch.wchoice('pool.start', ['fork', 'spawn'], [3, 1]) if allow_spawn else 'fork'
    cfg['durmodel'] = ch.choice('pool.durmodel', DURMODELS)
    cfg['latency'] = ch.flag('pool.latency', 1, 3)
    cfg['slow_worker'] = ch.flag('pool.slow_worker', 1, 5)
    cfg['respawn'] = ch.flag('pool.respawn', 1, 6) if allow_respawn else False
    w.poolcfg = cfg
    return cfg


def plain_poolcfg(w):
    w.poolcfg = {'start': 'fork', 'durmodel': 'unit', 'latency': False, 'slow_worker': False,
                 'respawn': False}
    return w.poolcfg


def draw_parent_rng_history(w):
    """Vary the generator state the parent holds when the pool is forked."""
    ch = w.ch
    mode = ch.pick('rng.history', 3)
    seed = 12345
    adv = 0
    if mode >= 1:
        seed = ch.pick('rng.seed', 100000)
        np.random.seed(seed)
    if mode == 2:
        adv = 1 + ch.pick('rng.advance', 700)
        np.random.randn(adv)
        w.fault('parent_rng_history', seed=seed, advance=adv)
    w.log('rng.history', mode=mode, seed=seed, advance=adv)
    return {'mode': mode, 'seed': seed, 'advance': adv}


class quiet_trace:
    """Context: run reference computations without recording stage events."""

    def __init__(self, w):
        self.w = w

    def __enter__(self):
        self.prev = self.w.trace_on
        self.w.trace_on = False

    def __exit__(self, *a):
        self.w.trace_on = self.prev


def partition_signature(batch):
    """Canonical job->worker partition of a pool batch: workers renumbered by first use."""
    ren = {}
    out = []
    for wk in batch['assign']:
        if wk not in ren:
            ren[wk] = len(ren)
        out.append(ren[wk])
    return tuple(out)


def rel_close(a, b, tol):
    a = np.asarray(a, dtype=float)
    b = np.asarray(b, dtype=float)
    if a.shape != b.shape:
        return False
    if not np.all(np.isfinite(a) == np.isfinite(b)):
        return False
    m = np.isfinite(a)
    if not m.any():
        return True
    scale = max(1.0, float(np.max(np.abs(a[m]))), float(np.max(np.abs(b[m]))))
    return float(np.max(np.abs(a[m] - b[m]))) <= tol * scale


def max_rel_err(a, b):
    a = np.asarray(a, dtype=float)
    b = np.asarray(b, dtype=float)
    scale = max(1.0, float(np.max(np.abs(a))), float(np.max(np.abs(b))))
    return float(np.max(np.abs(a - b))) / scale


def emd():
    return seams.install()


def tasks_stage_records(w, bid, ti, stage):
    return [r for r in w.stage_trace if r['task'] == (bid, ti) and r['stage'] == stage]


_HERE = __import__('os').path.dirname(__import__('os').path.dirname(__import__('os').path.abspath(__file__)))


def reraise_if_harness(e):
    """An exception whose innermost frame is harness code is a harness bug, never a verdict on emd."""
    if isinstance(e, (W.InjectedFault, W.ExcludedRun)) or getattr(e, '_sim_transported', False):
        return
    if isinstance(e, W.HarnessError):
        raise e
    tb = e.__traceback__
    last = None
    while tb is not None:
        last = tb
        tb = tb.tb_next
    if last is not None and last.tb_frame.f_code.co_filename.startswith(_HERE):
        raise W.HarnessError('exception raised inside harness code: %r' % (e,)) from e



class CallTimeout(BaseException):
    """The code under test did not return within the (real-time) limit.  A BaseException, so that neither the code
    under test nor the simulated pool's job transport can swallow it and carry on with the next (unlimited) job."""
    _sim_transported = True


class time_limited:
    """Interrupt a call into the code under test after `seconds` of real time (SIGALRM in the batch worker's main
    thread).  Only used where a reference execution of the same call has returned quickly, so that not returning is
    itself the observation; the limit is hundreds of times the normal duration."""

    def __init__(self, seconds):
        self.seconds = seconds

    def __enter__(self):
        import signal

        def onalarm(signum, frame):
            import simmp
            w = simmp.CURRENT[0]
            if w is not None:
                w.timing_dependent = True      # how far the call got before the limit is not a function of the seed
            raise CallTimeout('no return within %d s' % self.seconds)
        self._old = signal.signal(signal.SIGALRM, onalarm)
        signal.setitimer(signal.ITIMER_REAL, self.seconds)
        return self

    def __exit__(self, *a):
        import signal
        signal.setitimer(signal.ITIMER_REAL, 0)
        signal.signal(signal.SIGALRM, self._old)
        return False
