"""C06 - every sift option takes effect at the stage it configures, in every variant.

History check over the stage-entry trace recorded by the wrappers on get_next_imf / interp_envelope /
get_padded_extrema, including entries made inside simulated worker processes (behind a real pickle
round trip).  Only options the caller supplied carry obligations.
"""
import functools

import numpy as np

import world as W
from signals import draw_signal, signal
from props import common as C

ID = 'C06'
QUICK_RUNS = 1000
THOROUGH_RUNS = 120000
MAX_EXCLUDED_FRACTION = 0.3
SHRINK_RUNS = 300
SHRINK_S = 60
FIDELITY_CASES = {'quick': 4, 'thorough': 24}   # real-pool executions replayed in the simulator
RULE = ('one run = one top-level call of a sift variant with a drawn option set, delivery route and pool schedule; '
        'distinct = distinct tuple (variant, route, supplied groups, stop rule, interpolation method, extrema keys '
        'supplied, start method, canonical job->worker partition of the first two pool batches); non-trivial = all '
        'three stages were entered under the call and at least one supplied option was checked at each')
COMPONENTS = {'real': ['all emd.sift variants and stage functions', 'SiftConfig / get_config / get_func',
                       'pickle transport of option dictionaries and partials', 'emd.logger decorators'],
              'stub': ['multiprocessing.Pool (SimPool)', 'process identity', 'clock', 'OS entropy']}
ASSUMPTIONS = ['stage functions are reached through their emd.sift module names (true for every call in the tree)',
               'only supplied options carry obligations; pad option dictionaries are compared after normalising '
               'empty/None to the documented default',
               'schedule and fault choices are varied but, frankly, whether an option is forwarded does not depend on them']

VARIANTS = ['sift', 'mask_sift', 'ensemble_sift', 'complete_ensemble_sift', 'sift_second_layer:sift',
            'sift_second_layer:mask_sift', 'mask_sift_second_layer', 'get_next_imf_mask']
MAG_DEFAULT = {'mode': 'median', 'stat_length': 1}
LOC_DEFAULT = {'mode': 'reflect', 'reflect_type': 'odd'}
GROUPS = ('imf_opts', 'envelope_opts', 'extrema_opts')


def _norm(v):
    if isinstance(v, np.ndarray):
        return _norm(v.tolist())
    if isinstance(v, (list, tuple)):
        return [_norm(x) for x in v]
    if isinstance(v, dict) or hasattr(v, 'keys'):
        return {str(k): _norm(v[k]) for k in v.keys()}
    if isinstance(v, (np.floating, float)):
        return float(v)
    if isinstance(v, (np.bool_, bool)):
        return bool(v)
    if isinstance(v, (np.integer, int)):
        return int(v)
    return v


def _eq(a, b):
    return _norm(a) == _norm(b)


def _pad_norm(v, default):
    if not v:
        return dict(default)
    return _norm(v)


def draw_options(ch):
    """Option groups in which every supplied value differs from the default."""
    mask = 1 + ch.pick('groups', 7)          # which groups are supplied (bit mask, never empty)
    opts = {}
    if mask & 1:
        rule = ch.pick('stop_rule', 3)
        if rule == 0:
            o = {'stop_method': 'sd', 'sd_thresh': ch.choice('sd_thresh', [0.2, 0.05, 0.3]), 'max_iters': 80}
        elif rule == 1:
            o = {'stop_method': 'rilling', 'max_iters': 60,
                 'rilling_thresh': ch.choice('rilling', [(0.1, 0.7, 0.1), (0.2, 0.8, 0.2), (0.06, 0.6, 0.06), (0.15, 0.4, 0.2)])}
        else:
            o = {'stop_method': 'fixed', 'max_iters': 3 + ch.pick('max_iters', 4)}
        if ch.flag('env_step', 1, 2):
            o['env_step_size'] = ch.choice('env_step_size', [0.5, 0.8, 1 / 3.0])
        if ch.flag('energy', 1, 4):
            o['energy_thresh'] = ch.choice('energy_thresh', [60, 45])
        opts['imf_opts'] = o
    if mask & 2:
        opts['envelope_opts'] = {'interp_method': ch.choice('interp_method', ['pchip', 'mono_pchip'])}
    if mask & 4:
        keys = 1 + ch.pick('extrema_keys', 15)
        o = {}
        if keys & 1:
            o['pad_width'] = ch.choice('pad_width', [3, 1, 4])
        if keys & 2:
            o['parabolic_extrema'] = True
        if keys & 4:
            o['mag_pad_opts'] = ch.choice('mag_pad_opts', [{'mode': 'median', 'stat_length': 2},
                                                             {'mode': 'mean', 'stat_length': 1},
                                                             {'mode': 'maximum'}])
        if keys & 8:
            o['loc_pad_opts'] = ch.choice('loc_pad_opts', [{'mode': 'reflect', 'reflect_type': 'odd'}])
            if len(o) == 1:
                o['pad_width'] = 3
        opts['extrema_opts'] = o
    return opts


def _ia(ch, n):
    k = 2
    cols = []
    for j in range(k):
        s = signal(['am_tone', 'two_tone', 'three_tone_noise'][(j + ch.pick('ia.family', 3)) % 3], n, ch.pick('ia.sub', 50) + j)
        s = (s - s.mean()) / (s.std() + 1e-12)
        cols.append(2.0 + 0.6 * s)
    return np.stack(cols, axis=1)


def _ancestors(trace, rec):
    out = []
    p = rec['parent']
    while p is not None:
        out.append(trace[p])
        p = trace[p]['parent']
    return out


def _path(trace, rec):
    names = [a['stage'] for a in reversed(_ancestors(trace, rec))] + [rec['stage']]
    out = []
    for n in names:
        if not out or out[-1] != n:
            out.append(n)
    return '>'.join(out)


def scenario(w):
    ch = w.ch
    emd = C.emd()
    S = emd.sift
    vname = ch.choice('variant', VARIANTS)
    route = ch.choice('route', ['kwargs', 'config', 'get_func'])
    n = 80 + 8 * ch.pick('len', 16)
    x, sdesc = draw_signal(ch, 80, 200)
    opts = draw_options(ch)
    cfg = C.draw_poolcfg(w)
    nproc = 1 + ch.weighted('nprocesses', [3, 3, 2, 1])
    nens = [2, 3, 6, 5][ch.pick('nensembles', 4)]        # 5 and 6 give multi-job chunks on one worker
    base, _, inner = vname.partition(':')
    second_layer = base in ('sift_second_layer', 'mask_sift_second_layer')
    if base == 'get_next_imf_mask' or second_layer:
        if route != 'kwargs' and base == 'get_next_imf_mask':
            route = 'kwargs'      # no configuration object exists for the helper
    target = inner if base == 'sift_second_layer' else ('mask_sift' if base == 'mask_sift_second_layer' else base)

    # variant-specific fixed arguments (small and quick)
    fixed = {}
    if target == 'sift':
        fixed = {'max_imfs': 2 + ch.pick('max_imfs', 2)}
    elif target == 'mask_sift':
        fixed = {'max_imfs': 2 + ch.pick('max_imfs', 2), 'nprocesses': nproc,
                 'nphases': [4, 2, 3, 6][ch.pick('nphases', 4)],
                 'mask_freqs': ch.choice('mask_freqs', ['zc', 'if', 0.2])}
    elif target in ('ensemble_sift', 'complete_ensemble_sift'):
        fixed = {'max_imfs': 2, 'nprocesses': nproc, 'nensembles': nens,
                 'noise_mode': ch.choice('noise_mode', ['single', 'flip'])}
    elif target == 'get_next_imf_mask':
        fixed = {'z': 0.2, 'amp': float(x.std()), 'nphases': [4, 2, 3, 6][ch.pick('nphases', 4)], 'nprocesses': nproc}
    if base == 'mask_sift_second_layer':
        fixed.pop('mask_freqs', None)
    if second_layer:
        fixed['max_imfs'] = 2       # second-layer output has room for IA.shape[1] == 2 components

    # supplied options per route
    if route == 'kwargs':
        supplied = {g: opts[g] for g in opts}
        call_kw = dict(fixed)
        call_kw.update({g: _copy(opts[g]) for g in opts})
        conf = None
    else:
        conf = S.get_config(target)
        for k, v in fixed.items():
            conf[k] = v
        if route == 'get_func' and ch.flag('prime_get_func', 1, 2):
            conf.get_func()                      # a partial is taken before the options are edited ...
            w.probe('get_func_primed')
        chained = ch.flag('chained_edits', 1, 2)     # ... and options may be set by chained indexing
        for g in opts:
            for k, v in opts[g].items():
                if chained:
                    conf[g][k] = _copy(v)
                else:
                    conf['%s/%s' % (g, k)] = _copy(v)
        supplied = {g: _norm(conf[g]) for g in GROUPS}      # snapshot of what this configuration was given
        call_kw = None
        if ch.flag('decoy_config', 1, 3):
            # a second, unrelated configuration object is created and edited before the first one is used
            other = S.get_config(ch.choice('decoy.variant', ['sift', 'mask_sift', 'ensemble_sift']))
            other['imf_opts/sd_thresh'] = 0.4321
            other['imf_opts/stop_method'] = 'sd'
            other['envelope_opts/interp_method'] = 'splrep' if (opts.get('envelope_opts') or {}).get('interp_method') else 'mono_pchip'
            other['extrema_opts/pad_width'] = 5
            other['extrema_opts/mag_pad_opts'] = {'mode': 'minimum'}
            w.probe('decoy_config_used')

    phases = [(0, supplied)]       # (first stage-record index, options in force from there on)
    desc = {'variant': vname, 'route': route, 'signal': sdesc, 'options': _norm(opts), 'fixed': _norm(fixed), 'pool': dict(cfg)}
    w.sample = desc
    w.log('call', variant=vname, route=route, options=_norm(opts), fixed=_norm(fixed))

    exc = None
    try:
        if second_layer:
            IA = _ia(ch, x.shape[0])
            sift_args = dict(call_kw) if conf is None else {k: conf[k] for k in conf}
            sift_args['max_imfs'] = 2
            if base == 'sift_second_layer':
                if route == 'get_func':
                    f = conf.get_func()
                    S.sift_second_layer(IA, sift_func=f, sift_args={})
                else:
                    S.sift_second_layer(IA, sift_func=getattr(S, inner), sift_args=sift_args)
            else:
                sift_args.pop('mask_freqs', None)
                S.mask_sift_second_layer(IA, [0.2, 0.1, 0.05], sift_args=sift_args)
        elif base == 'get_next_imf_mask':
            kw = dict(call_kw)
            z, amp = kw.pop('z'), kw.pop('amp')
            S.get_next_imf_mask(x.copy(), z, amp, **kw)
        else:
            # the same option objects are used for a second call in a third of the runs: an option consumed or
            # rewritten in place by the first call would be missing from the second
            nrep = 2 if ch.flag('repeat_call', 1, 3) else 1
            for rep in range(nrep):
                if rep == 1 and ch.flag('edit_in_place_between_calls', 1, 2):
                    # the SAME option objects are edited in place between the two calls; the second call must run
                    # with the new values everywhere (a pool, partial or cache kept from the first call must not
                    # pin the old ones)
                    opts2 = draw_options(ch)
                    if route == 'kwargs':
                        for g in opts2:
                            if g in call_kw and isinstance(call_kw[g], dict):
                                call_kw[g].clear()
                                call_kw[g].update(_copy(opts2[g]))
                        supplied2 = {g: _norm(call_kw[g]) for g in GROUPS if g in call_kw}
                    else:
                        for g in opts2:
                            for k, v in opts2[g].items():
                                conf['%s/%s' % (g, k)] = _copy(v)
                        supplied2 = {g: _norm(conf[g]) for g in GROUPS}
                    phases.append((len(w.stage_trace), supplied2))
                    desc['options_second_call'] = _norm(opts2)
                    w.probe('edited_in_place_between_calls')
                if route == 'kwargs':
                    getattr(S, target)(x.copy(), **call_kw)
                elif route == 'config':
                    getattr(S, target)(x.copy(), **conf)
                else:
                    conf.get_func()(x.copy())
    except W.InjectedFault:
        raise
    except Exception as e:
        C.reraise_if_harness(e)
        exc = e

    trace = w.stage_trace
    tops = [r for r in trace if r['parent'] is None]
    if not tops:
        raise W.HarnessError('top-level call not observed')

    # ---- the history check ------------------------------------------------------------------
    lost = set()       # (record id, group) where a group was first found missing
    checked = {'get_next_imf': 0, 'interp_envelope': 0, 'get_padded_extrema': 0}
    seen = {'get_next_imf': 0, 'interp_envelope': 0, 'get_padded_extrema': 0}
    in_worker = 0
    nviol = 0
    for rec in trace:
        st = rec['stage']
        if st not in seen:
            continue
        supplied = _phase_for(phases, rec['id'])
        anc = _ancestors(trace, rec)
        anc_names = [a['stage'] for a in anc]
        if st != 'get_next_imf' and 'get_next_imf' not in anc_names:
            continue      # envelope / extrema calls made for other purposes are not sifting stages
        seen[st] += 1
        if rec['task'] is not None:
            in_worker += 1
        b = rec['bound']
        if b is None:
            w.violation('option-call-malformed', '%s|%s' % (vname, _path(trace, rec)),
                        'stage %s was called with arguments that do not bind to its signature' % st)
            nviol += 1
            continue
        anc_ids = set(a['id'] for a in anc)

        def already(group):
            return any((i, group) in lost for i in anc_ids)

        def bad(group, key, want, got):
            lost.add((rec['id'], group))
            where = 'worker process pid %d' % rec['pid'] if rec['task'] is not None else 'the calling process'
            w.violation('option-dropped', '%s|%s|%s' % (vname, _path(trace, rec), group),
                        '%s (%s route): %s option %s=%r supplied by the caller, but stage %s (in %s) was entered with %r'
                        % (vname, route, group, key, want, st, where, got))

        if st == 'get_next_imf':
            if 'imf_opts' in supplied and not already('imf_opts'):
                for k, v in supplied['imf_opts'].items():
                    checked[st] += 1
                    if k not in b or not _eq(b[k], v):
                        bad('imf_opts', k, v, b.get(k, '<absent>'))
                        nviol += 1
                        break
            for g in ('envelope_opts', 'extrema_opts'):
                if g in supplied and not already(g):
                    have = b.get(g)
                    for k, v in supplied[g].items():
                        checked[st] += 1
                        hv = have.get(k, '<absent>') if isinstance(have, dict) or hasattr(have, 'keys') else '<%r>' % (have,)
                        if k in ('mag_pad_opts', 'loc_pad_opts') and not isinstance(hv, str):
                            d = MAG_DEFAULT if k == 'mag_pad_opts' else LOC_DEFAULT
                            ok = _pad_norm(hv, d) == _pad_norm(v, d)
                        else:
                            ok = not isinstance(hv, str) and _eq(hv, v) if not isinstance(v, str) else _eq(hv, v)
                        if not ok:
                            bad(g, k, v, hv)
                            nviol += 1
                            break
        elif st == 'interp_envelope':
            if 'envelope_opts' in supplied and not already('envelope_opts'):
                for k, v in supplied['envelope_opts'].items():
                    checked[st] += 1
                    if k not in b or not _eq(b[k], v):
                        bad('envelope_opts', k, v, b.get(k, '<absent>'))
                        nviol += 1
                        break
            if 'extrema_opts' in supplied and not already('extrema_opts'):
                have = b.get('extrema_opts')
                for k, v in supplied['extrema_opts'].items():
                    checked[st] += 1
                    hv = have.get(k, '<absent>') if isinstance(have, dict) or hasattr(have, 'keys') else '<%r>' % (have,)
                    if k in ('mag_pad_opts', 'loc_pad_opts') and not isinstance(hv, str):
                        d = MAG_DEFAULT if k == 'mag_pad_opts' else LOC_DEFAULT
                        ok = _pad_norm(hv, d) == _pad_norm(v, d)
                    else:
                        ok = not isinstance(hv, str) and _eq(hv, v)
                    if not ok:
                        bad('extrema_opts', k, v, hv)
                        nviol += 1
                        break
        else:   # get_padded_extrema
            if 'interp_envelope' not in anc_names:
                continue
            if 'extrema_opts' in supplied and not already('extrema_opts'):
                for k, v in supplied['extrema_opts'].items():
                    checked[st] += 1
                    hv = b.get(k, '<absent>')
                    if k in ('mag_pad_opts', 'loc_pad_opts'):
                        d = MAG_DEFAULT if k == 'mag_pad_opts' else LOC_DEFAULT
                        ok = _pad_norm(hv, d) == _pad_norm(v, d)
                    else:
                        ok = _eq(hv, v)
                    if not ok:
                        bad('extrema_opts', k, v, hv)
                        nviol += 1
                        break

    # ---- inside the stages: the routines a stage calls are the ones its (supplied) options select ----------
    nviol += _check_effect(w, trace, phases, vname)
    if not nviol and any('imf_opts' in ph[1] for ph in phases):
        nviol += _check_extraction(w, trace, vname)

    if in_worker:
        w.probe('stage_entries_in_workers', in_worker)
    w.probe('options_checked', sum(checked.values()))
    parts = [C.partition_signature(bt) for bt in w.batches[:2]]
    w.cov = (vname, route, tuple(sorted(opts)), (opts.get('imf_opts') or {}).get('stop_method'),
             (opts.get('envelope_opts') or {}).get('interp_method'), tuple(sorted((opts.get('extrema_opts') or {}))),
             cfg['start'], tuple(parts))
    w.nontrivial = all(seen[s] > 0 for s in seen) and sum(checked.values()) > 0

    if exc is not None:
        if nviol:
            return          # the lost option is the finding; the failure is a consequence
        # C06 does not promise that every option combination yields a decomposition; a call that fails
        # for numerical reasons is outside what the property speaks about (counted, vacuity-guarded)
        w.probe('call_raised:' + type(exc).__name__)
        raise W.ExcludedRun('workload raised %s: %s' % (type(exc).__name__, str(exc)[:80]))
    if seen['get_next_imf'] == 0:
        raise W.HarnessError('no get_next_imf entry observed under %s (vacuity guard)' % vname)


STOP_FN = {'sd': 'sd_stop', 'rilling': 'rilling_stop', 'fixed': 'fixed_stop'}
INTERP_FAMILY = {'splrep': ('splrep', 'splev'), 'pchip': ('pchip', 'PchipInterpolator'),
                 'mono_pchip': ('pchip', 'PchipInterpolator')}


def _phase_for(phases, rec_id):
    cur = phases[0][1]
    for start, sup in phases:
        if rec_id >= start:
            cur = sup
    return cur


def _check_effect(w, trace, phases, vname):
    """Consistency between the options a stage was entered with and the routines it then calls.  Sound under
    inlining refactors: nothing is required to be called, but what is called must be what the options select."""
    lib_by_parent = {}
    for c in w.lib_calls:
        lib_by_parent.setdefault(c['parent'], []).append(c)
    kids = {}
    for r in trace:
        if r['parent'] is not None:
            kids.setdefault(r['parent'], []).append(r)
    n = 0

    def bad(sig, msg):
        w.violation('option-not-honoured', sig, msg)
        return 1

    for rec in trace:
        st, b = rec['stage'], rec['bound']
        if b is None or st not in ('get_next_imf', 'interp_envelope', 'get_padded_extrema'):
            continue
        supplied = _phase_for(phases, rec['id'])
        sup_imf = supplied.get('imf_opts') or {}
        sup_env = supplied.get('envelope_opts') or {}
        sup_ext = supplied.get('extrema_opts') or {}
        names = [a['stage'] for a in _ancestors(trace, rec)]
        if st != 'get_next_imf' and 'get_next_imf' not in names:
            continue
        where = 'worker process pid %d' % rec['pid'] if rec['task'] is not None else 'the calling process'
        if st == 'get_next_imf' and 'stop_method' in sup_imf:
            want = STOP_FN.get(b.get('stop_method'))
            for k in kids.get(rec['id'], []):
                if k['stage'] in STOP_FN.values():
                    w.probe('stop_rule_calls_checked')
                    if want is not None and k['stage'] != want:
                        n += bad('get_next_imf|stop_method', '%s: stop_method=%r was supplied but %s was used (in %s)'
                                 % (vname, b.get('stop_method'), k['stage'], where))
                        break
                    kb = k['bound'] or {}
                    if k['stage'] == 'sd_stop' and 'sd_thresh' in sup_imf and not _eq(kb.get('sd'), b.get('sd_thresh')):
                        n += bad('get_next_imf|sd_thresh', '%s: sd_thresh=%r was supplied but the stop rule ran with %r'
                                 % (vname, b.get('sd_thresh'), kb.get('sd')))
                        break
                    if k['stage'] == 'rilling_stop' and 'rilling_thresh' in sup_imf and \
                            not _eq([kb.get('sd1'), kb.get('sd2'), kb.get('tol')], list(b.get('rilling_thresh'))):
                        n += bad('get_next_imf|rilling_thresh', '%s: rilling_thresh=%r was supplied but the stop rule ran with %r'
                                 % (vname, b.get('rilling_thresh'), [kb.get('sd1'), kb.get('sd2'), kb.get('tol')]))
                        break
                    if k['stage'] == 'fixed_stop' and 'max_iters' in sup_imf and not _eq(kb.get('max_iters'), b.get('max_iters')):
                        n += bad('get_next_imf|max_iters', '%s: max_iters=%r was supplied but the fixed stop rule ran with %r'
                                 % (vname, b.get('max_iters'), kb.get('max_iters')))
                        break
        elif st == 'interp_envelope' and 'interp_method' in sup_env:
            fam = INTERP_FAMILY.get(b.get('interp_method'))
            for c in lib_by_parent.get(rec['id'], []):
                if c['lib'] == 'interp':
                    w.probe('interpolator_calls_checked')
                    if fam is not None and c['fn'] not in fam:
                        n += bad('interp_envelope|interp_method', '%s: interp_method=%r was supplied but scipy.interpolate.%s was used (in %s)'
                                 % (vname, b.get('interp_method'), c['fn'], where))
                        break
        elif st == 'get_padded_extrema':
            calls = [c for c in lib_by_parent.get(rec['id'], []) if c['lib'] == 'np' and c['fn'] == 'pad']
            if calls and ('mag_pad_opts' in sup_ext or 'loc_pad_opts' in sup_ext):
                loc = _pad_norm(b.get('loc_pad_opts'), LOC_DEFAULT)
                mag = _pad_norm(b.get('mag_pad_opts'), MAG_DEFAULT)
                for i, c in enumerate(calls):
                    w.probe('pad_calls_checked')
                    spec = _norm(dict(c['kwargs'], mode=c['mode']))
                    if spec != loc and spec != mag:
                        n += bad('get_padded_extrema|pad_opts',
                                 '%s: padding call %d of %d used %r; the supplied options are loc_pad_opts=%r mag_pad_opts=%r (in %s)'
                                 % (vname, i, len(calls), spec, loc, mag, where))
                        break
                if len(calls) > 2:
                    w.probe('repeat_padding_seen')
            if calls and 'pad_width' in sup_ext and isinstance(b.get('pad_width'), (int, np.integer)):
                first = calls[0]
                want = min(int(b['pad_width']), int(first['len'])) if first['len'] is not None else int(b['pad_width'])
                if any(c['pad_width'] != want for c in calls):
                    n += bad('get_padded_extrema|pad_width', '%s: pad_width=%r was supplied (%d extrema) but padding used %r'
                             % (vname, b['pad_width'], first['len'], [c['pad_width'] for c in calls]))
            if 'parabolic_extrema' in sup_ext:
                for k in kids.get(rec['id'], []):
                    if k['stage'] == '_find_extrema' and k['bound'] is not None and \
                            bool(k['bound'].get('parabolic_extrema')) != bool(b.get('parabolic_extrema')):
                        n += bad('get_padded_extrema|parabolic_extrema', '%s: parabolic_extrema=%r was supplied but extrema detection ran with %r'
                                 % (vname, b.get('parabolic_extrema'), k['bound'].get('parabolic_extrema')))
                        break
    return n


def _reference_get_next_imf(b):
    """The documented single-IMF extraction, assembled explicitly from the envelope stage and the three stop rules,
    driven by the arguments a recorded get_next_imf call was entered with."""
    import seams
    interp_envelope = seams.stage_original('interp_envelope')
    X = np.asarray(b['X'], dtype=float)
    if X.ndim == 1:
        X = X[:, None]
    env = b.get('envelope_opts') or {}
    ext = b.get('extrema_opts')
    proto = X.copy()
    flag = True
    niters = 0
    while True:
        if b['stop_method'] != 'fixed' and niters > b['max_iters']:
            return None
        niters += 1
        if niters > 5000:
            return None
        upper = interp_envelope(proto, mode='upper', **env, extrema_opts=ext)
        lower = interp_envelope(proto, mode='lower', **env, extrema_opts=ext)
        if upper is None or lower is None:
            flag = False
            break
        avg = np.mean([upper, lower], axis=0)[:, None]
        x1 = proto - avg
        if b['stop_method'] == 'sd':
            stop = np.sum((proto - x1) ** 2) / np.sum(proto ** 2) < b['sd_thresh']
        elif b['stop_method'] == 'rilling':
            sd1, sd2, tol = b['rilling_thresh'][0], b['rilling_thresh'][1], b['rilling_thresh'][2]
            amp = np.abs(upper - lower) / 2
            ev = np.abs((upper + lower) / 2) / amp
            stop = not (np.mean(ev > sd1) > tol or np.any(ev > sd2))
        elif b['stop_method'] == 'fixed':
            stop = niters == b['max_iters']
        else:
            return None
        if stop:
            proto = x1.copy()
            break
        proto = proto - (b['env_step_size'] * avg)
    if b.get('energy_thresh') is not None:
        ssq = np.sum(X ** 2)
        e1 = 20 * np.log10(ssq) if ssq > 0 else None
        rs = np.sum((X - proto) ** 2)
        e2 = 20 * np.log10(rs) if rs > 0 else None
        if e1 is not None and e2 is not None and e1 - e2 > b['energy_thresh']:
            flag = False
        elif e1 is None or e2 is None:
            flag = None          # degenerate energies: not judged
    return proto, flag


def _check_extraction(w, trace, vname):
    """Output equality with a pipeline assembled explicitly from the stage functions with the same options, for a
    few of the recorded single-IMF extractions (first, last, and the first two inside worker processes)."""
    recs = [r for r in trace if r['stage'] == 'get_next_imf' and r['bound'] is not None and 'out' in r and r.get('x') is not None]
    if not recs:
        return 0
    pick = [recs[0], recs[-1]] + [r for r in recs if r['task'] is not None][:2]
    seen = set()
    for r in pick:
        if r['id'] in seen:
            continue
        seen.add(r['id'])
        b = dict(r['bound'])
        b['X'] = r['x']          # the signal as it was at entry
        try:
            with C.quiet_trace(w):
                ref = _reference_get_next_imf(b)
        except Exception:
            continue             # the reference itself cannot be evaluated for these arguments: not judged
        if ref is None:
            continue
        w.probe('extractions_checked_against_reference')
        out, flag = r['out']
        if out.shape != ref[0].shape or not C.rel_close(out, ref[0], 1e-9) or (ref[1] is not None and bool(flag) != bool(ref[1])):
            where = 'worker process pid %d' % r['pid'] if r['task'] is not None else 'the calling process'
            opts = {k: v for k, v in _norm(b).items() if k not in ('X', 'envelope_opts', 'extrema_opts')}
            w.violation('extraction-differs', '%s|%s' % (vname.split(':')[0], b.get('stop_method')),
                        '%s: a single-IMF extraction entered (in %s) with %r does not equal the documented extraction '
                        'assembled from the envelope stage and the %r stop rule with those options (max rel err %s, flag %r vs %r)'
                        % (vname, where, opts, b.get('stop_method'),
                           C.max_rel_err(out, ref[0]) if out.shape == ref[0].shape else 'shape', flag, ref[1]))
            return 1
    return 0


def _copy(v):
    if isinstance(v, dict):
        return {k: _copy(x) for k, x in v.items()}
    return v
