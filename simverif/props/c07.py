"""C07 - masked sift applies the documented masks, removes them, and is schedule independent.

Each workload is executed once on a single simulated worker with the plain schedule (reference) and once
under a drawn pool configuration (1..8 workers, fork/spawn, duration model, stalls, respawns).  The
oracle is decomposed over the recorded pool history so that no comparison straddles a sifting stop
decision: mask definition, worker computation, recombination, ladder/amplitudes, zero amplitude,
schedule independence.
"""
import numpy as np

import world as W
from signals import draw_signal
from props import common as C

ID = 'C07'
QUICK_RUNS = 1200
THOROUGH_RUNS = 150000
MAX_EXCLUDED_FRACTION = 0.25
SHRINK_RUNS = 300
SHRINK_S = 60
FIDELITY_CASES = {'quick': 4, 'thorough': 24}   # real-pool executions replayed in the simulator
RULE = ('one run = one masked-sift workload executed on a single plain worker and again under a seeded pool '
        'schedule; distinct = distinct tuple (entry point, frequency source, amplitude mode, nphases, start method, '
        'canonical job->worker partition and completion order of the first three mask batches, respawn positions); '
        'non-trivial = at least two workers executed mask jobs in the scheduled execution')
COMPONENTS = {'real': ['emd.sift.mask_sift', 'emd.sift.get_next_imf_mask', 'emd.sift.get_mask_freqs',
                       'emd.sift.get_next_imf and stage functions', 'pickle transport of functools.partial jobs'],
              'stub': ['multiprocessing.Pool (SimPool)', 'process identity', 'clock', 'OS entropy']}
ASSUMPTIONS = ['pool workers interact only through task and result queues (fidelity self-test)',
               'mask arithmetic compared to 1e-12 relative; worker results and schedule independence compared bitwise',
               'envelope/extrema options are left at their defaults here (whether they reach the masked path is C06)']

NPHASES = [4, 1, 2, 3, 5, 6, 7, 8]


def _imf_opts(ch):
    k = ch.weighted('imf_opts', [3, 1, 1, 1, 1])
    if k == 0:
        return None
    if k == 1:
        return {'stop_method': 'sd', 'sd_thresh': ch.choice('sd_thresh', [0.05, 0.2, 0.3])}
    if k == 2:
        return {'stop_method': 'rilling', 'rilling_thresh': (0.05, 0.5, 0.05)}
    if k == 3:
        return {'stop_method': 'fixed', 'max_iters': 2 + ch.pick('max_iters', 5)}
    return {'env_step_size': ch.choice('env_step_size', [0.5, 1 / 3.0, 0.8]), 'sd_thresh': 0.1}


def _call(S, entry, x, kw):
    try:
        if entry == 'direct':
            return S.get_next_imf_mask(x.copy(), **kw), None
        if entry == 'second_layer':
            # amplitude-like positive series as first-layer envelopes; the routine edits sift_args in place
            IA = np.stack([2.0 + 0.5 * x / (np.abs(x).max() + 1e-12), 1.5 + 0.4 * np.roll(x, 7) / (np.abs(x).max() + 1e-12)], axis=1)
            args = dict(kw)
            freqs = list(args.pop('mask_freqs'))
            return S.mask_sift_second_layer(IA, freqs, sift_args=args), None
        return S.mask_sift(x.copy(), **kw), None
    except W.InjectedFault:
        raise
    except C.CallTimeout as e:
        return None, e
    except Exception as e:
        C.reraise_if_harness(e)
        return None, e


def _mask_calls(w, lo):
    """get_next_imf_mask stage records made after trace position lo, each with its pool batch."""
    out = []
    for r in w.stage_trace[lo:]:
        if r['stage'] != 'get_next_imf_mask':
            continue
        bs = [b for b in w.batches if r['seq'] <= b['seq'] <= r.get('seq_out', 1 << 60)]
        out.append((r, bs))
    return out


def _children(w, rec, stage):
    """Stage records of `stage` made underneath call `rec` (in any simulated process)."""
    out = []
    hi = rec.get('seq_out', 1 << 60)
    for r in w.stage_trace[rec['id'] + 1:]:
        if r['seq'] > hi:
            break
        if r['stage'] != stage:
            continue
        p = r['parent']
        while p is not None and p != rec['id']:
            p = w.stage_trace[p]['parent']
        if p == rec['id']:
            out.append(r)
    return out


def _check_mask_call(w, S, rec, batches, tag):
    """Items 1-3 and 5 for one get_next_imf_mask call, from the single-IMF extractions recorded underneath it
    (however the implementation packs them into pool jobs).  Returns False after a violation."""
    import seams
    b = rec['bound']
    if b is None:
        raise W.HarnessError('get_next_imf_mask called with unbindable arguments')
    X = np.asarray(rec['x'] if rec.get('x') is not None else b['X'], dtype=float)   # snapshot taken at entry
    if X.ndim == 1:
        X = X[:, None]
    z, amp, nph = b['z'], b['amp'], b['nphases']
    if 'out' not in rec:
        return True
    out, flag = rec['out']
    subs = _children(w, rec, 'get_next_imf')
    if any(r['task'] is None for r in subs):
        w.probe('mask_extraction_in_parent')
    gni = seams.stage_original('get_next_imf')

    def zero_amplitude_ok():
        # 5. zero amplitude: the result is the unmasked extraction with the options the caller supplied
        w.probe('zero_amplitude_checked')
        kw = dict(b.get('imf_opts') or {})
        with C.quiet_trace(w):
            ref = gni(X.copy(), envelope_opts=b.get('envelope_opts'), extrema_opts=b.get('extrema_opts'), **kw)
        if out.shape != ref[0].shape or not C.rel_close(out, ref[0], 1e-12):
            w.violation('zero-amplitude', tag, 'zero-amplitude masked extraction differs from unmasked extraction with the '
                        'supplied options %r (max rel err %.3g)' % (kw, C.max_rel_err(out, ref[0]) if out.shape == ref[0].shape else float('nan')))
            return False
        return True

    if float(amp) == 0.0 and len(subs) == 1 and subs[0].get('x') is not None and \
            np.array_equal(np.asarray(subs[0]['x'], dtype=float).reshape(X.shape), X):
        # a legitimate shortcut: with a zero mask every phase is the same extraction
        w.probe('zero_amplitude_shortcut')
        return zero_amplitude_ok()
    if len(subs) != nph:
        w.violation('mask-phases', tag, 'nphases=%d but %d single-IMF extractions were run' % (nph, len(subs)))
        return False
    if any('out' not in r or r['bound'] is None for r in subs):
        return True
    N = X.shape[0]
    t = np.arange(N)
    scale = max(abs(float(amp)), float(np.max(np.abs(X))), 1.0)
    A = [np.asarray(r['x'], dtype=float).reshape(N, 1) for r in subs]
    R = [np.asarray(r['out'][0], dtype=float).reshape(N, 1) for r in subs]
    F = [bool(r['out'][1]) for r in subs]
    # 1. mask definition: the set of masks is the documented one, each phase exactly once
    unused = list(range(nph))
    for k in range(nph):
        want = amp * np.cos(2 * np.pi * z * t + 2 * np.pi * k / nph)[:, None]
        hit = None
        for j in unused:
            if float(np.max(np.abs((A[j] - X) - want))) <= 1e-12 * scale * 8:
                hit = j
                break
        if hit is None:
            err = min(float(np.max(np.abs((A[j] - X) - want))) for j in range(nph))
            w.violation('mask-definition', tag,
                        'no extraction was applied to X + amp*cos(2*pi*z*t + 2*pi*%d/%d): closest signal-plus-mask is off by %.3g '
                        '(z=%.6g amp=%.6g)' % (k, nph, err, z, amp))
            return False
        unused.remove(hit)
    # 2. worker computation == same function on the same bytes in the parent
    for j, r in enumerate(subs):
        kw = {k2: v for k2, v in r['bound'].items() if k2 != 'X'}
        with C.quiet_trace(w):
            again = gni(A[j].copy(), **kw)
        if not (np.array_equal(again[0], r['out'][0]) and bool(again[1]) == F[j]):
            w.violation('worker-state-leak', tag,
                        'single-IMF extraction %d returned a different result in process %d than the same call on the '
                        'same input in the parent' % (j, r['pid']))
            return False
    # 3. recombination: each mask removed from the IMF it was added to, equal-weight mean over phases
    want = np.mean(np.concatenate([R[j] - (A[j] - X) for j in range(nph)], axis=1), axis=1)[:, None]
    if out.shape != want.shape or not C.rel_close(out, want, 1e-12):
        bt = batches[0] if batches else {'order': None, 'assign': None}
        w.violation('mask-recombination', tag,
                    'masked IMF is not the mean over phases of (extraction result minus its own mask): max rel err %.3g '
                    '(completion order %s, job->worker %s)' % (
                        C.max_rel_err(out, want) if out.shape == want.shape else float('nan'), bt['order'], bt['assign']))
        return False
    if bool(flag) != any(F):
        w.violation('mask-recombination', tag + ':flag', 'continue flag %r is not any(%r)' % (flag, F))
        return False
    if float(amp) == 0.0:
        return zero_amplitude_ok()
    return True


def scenario(w):
    ch = w.ch
    emd = C.emd()
    S = emd.sift
    entry = ch.wchoice('entry', ['mask_sift', 'direct', 'second_layer'], [4, 2, 1])
    x, sdesc = draw_signal(ch, 96, 304)
    nph = NPHASES[ch.pick('nphases', 8)]
    nproc = 1 + ch.weighted('nprocesses', [2, 4, 4, 3, 2, 1, 1, 1])
    imf_opts = _imf_opts(ch)
    sd_x = float(x.std())
    desc = {'entry': entry, 'signal': sdesc, 'nphases': nph, 'nprocesses': nproc, 'imf_opts': imf_opts}
    if entry == 'direct':
        z = ch.choice('z', [0.1, 0.02, 0.25, 0.33, 0.45, 0.004])
        ampf = ch.choice('amp', [1.0, 0.0, 0.5, 3.0])
        kw = dict(z=z, amp=ampf * sd_x, nphases=nph, imf_opts=imf_opts)
        src, amode = 'direct', 'direct'
        desc.update(z=z, amp=ampf * sd_x)
    elif entry == 'second_layer':
        src, amode = 'list', ch.choice('mask_amp_mode', ['ratio_imf', 'ratio_sig', 'abs'])
        kw = dict(mask_freqs=[0.3, 0.12, 0.05], mask_amp=ch.choice('mask_amp', [1, 0.5, 2.0]), mask_amp_mode=amode,
                  max_imfs=2, nphases=nph, imf_opts=imf_opts)
        desc.update(mask_amp_mode=amode, mask_amp=kw['mask_amp'])
    else:
        src = ch.choice('mask_freqs', ['zc', 'if', 'float', 'list', 'array', 'tuple'])
        amode = ch.choice('mask_amp_mode', ['ratio_imf', 'ratio_sig', 'abs'])
        step = ch.choice('mask_step_factor', [2, 1.5, 3, 2.5])
        max_imfs = [3, 1, 2, 4, 5][ch.pick('max_imfs', 5)]
        if src in ('zc', 'if'):
            mf = src
        elif src == 'float':
            mf = ch.choice('first_freq', [0.25, 0.1, 0.4, 0.05, 0.499])
        else:
            L = [0.3, 0.12, 0.05, 0.02, 0.008, 0.003][:1 + ch.pick('nfreqs', 6)]
            if ch.flag('freqs_irregular', 1, 3):
                L = [f * (1 + 0.1 * ((i * 7) % 3)) for i, f in enumerate(L)]
            mf = {'list': list, 'array': np.array, 'tuple': tuple}[src](L)
        if ch.flag('amp_array', 1, 3):
            base = [[1.0, 0.5, 2.0, 0.0, 1.5, 0.25], [3, 2, 2, 1, 1, 4]][ch.pick('amp_integers', 2)]
            rot = ch.pick('amp_rot', 6)
            vals = (base[rot:] + base[:rot])[:max(max_imfs, 1)]
            ma = [np.array(vals), list(vals), tuple(vals)][ch.pick('amp_container', 3)]
        else:
            ma = ch.choice('mask_amp', [1, 0.5, 2.0, 0, 3, np.float64(1.5)])
        kw = dict(mask_amp=ma, mask_amp_mode=amode, mask_freqs=mf, mask_step_factor=step, ret_mask_freq=True,
                  max_imfs=max_imfs, nphases=nph, imf_opts=imf_opts)
        desc.update(mask_freqs=mf, mask_amp=ma, mask_amp_mode=amode, mask_step_factor=step, max_imfs=max_imfs)

    # ---- history: an earlier masked extraction with other options and the same number of workers ----------------
    if ch.flag('prelude_other_options', 1, 4):
        C.plain_poolcfg(w)
        try:
            S.get_next_imf_mask(x[:96].copy(), 0.21, 0.5 * sd_x, nphases=2, nprocesses=nproc,
                                imf_opts={'sd_thresh': 0.35, 'env_step_size': 0.7})
        except Exception as e:
            C.reraise_if_harness(e)
        w.probe('prelude_call')
        desc['prelude'] = True
        del w.stage_trace[:]
        del w.batches[:]

    # ---- reference execution: one worker, plain schedule -----------------------------------------
    C.plain_poolcfg(w)
    w.log('reference.begin')
    import engine
    t_ref = engine._real_perf()
    ref, ref_exc = _call(S, entry, x, dict(kw, nprocesses=1))
    t_ref = engine._real_perf() - t_ref
    nref_batches = len(w.batches)
    nref_trace = len(w.stage_trace)

    # ---- scheduled execution ---------------------------------------------------------------------
    cfg = C.draw_poolcfg(w)
    w.log('scheduled.begin', nprocesses=nproc)
    if ref_exc is None:
        with C.time_limited(max(120, int(40 * t_ref))):
            got, got_exc = _call(S, entry, x, dict(kw, nprocesses=nproc))
    else:
        got, got_exc = _call(S, entry, x, dict(kw, nprocesses=nproc))
    sched_batches = w.batches[nref_batches:]
    desc['pool'] = dict(cfg)
    desc['schedule'] = [{'batch': b['id'], 'assign': b['assign'], 'completion_order': b['order'],
                         'respawn_before_chunks': b['respawns']} for b in sched_batches[:6]]
    w.sample = desc
    used = max([len(set(b['assign'])) for b in sched_batches] or [0])
    w.cov = (entry, src, amode, nph, cfg['start'],
             tuple((C.partition_signature(b), tuple(b['order']), tuple(b['respawns'])) for b in sched_batches[:3]))
    w.nontrivial = used >= 2
    if used >= 2:
        w.probe('two_or_more_workers_used')
    if any(b['order'] != sorted(b['order']) for b in sched_batches):
        w.probe('completion_order_differs_from_submission')

    if ref_exc is not None or got_exc is not None:
        if ref_exc is not None and got_exc is not None and type(ref_exc) is type(got_exc):
            w.probe('both_raised')
            raise W.ExcludedRun('workload raises %s on one worker too' % type(ref_exc).__name__)
        w.violation('schedule-dependence', entry + ':raise',
                    'single-worker execution %s but nprocesses=%d execution %s' % (
                        'raised %r' % (ref_exc,) if ref_exc is not None else 'returned',
                        nproc, 'raised %r' % (got_exc,) if got_exc is not None else 'returned'))
        return

    tag = entry
    # ---- items 1-3, 5 on every masked extraction of both executions -------------------------------
    calls = _mask_calls(w, 0)
    if not calls:
        raise W.HarnessError('no get_next_imf_mask call observed (vacuity guard)')
    for rec, bs in calls:
        if not _check_mask_call(w, S, rec, bs, tag):
            return

    # ---- 6. schedule independence ------------------------------------------------------------------
    def same(a, b):
        if isinstance(a, tuple):
            return len(a) == len(b) and all(same(p, q) for p, q in zip(a, b))
        if isinstance(a, (np.ndarray, list)):
            return np.array_equal(np.asarray(a), np.asarray(b))
        return a == b or (a != a and b != b)
    if not same(ref, got):
        w.violation('schedule-dependence', entry,
                    '%s result with nprocesses=%d (%s, job->worker %s, completion %s) is not bitwise the '
                    'single-worker result' % (entry, nproc, cfg['start'],
                                              [b['assign'] for b in sched_batches[:3]],
                                              [b['order'] for b in sched_batches[:3]]))
        return

    if entry != 'mask_sift':
        return

    # ---- 4. ladder, amplitudes, returned frequencies (scheduled execution) -------------------------
    imf, freqs = got
    sched_calls = _mask_calls(w, nref_trace)
    nlayers = imf.shape[1]
    if len(sched_calls) != nlayers:
        w.violation('mask-structure', tag + ':layers', '%d masked extractions for %d returned IMFs' % (len(sched_calls), nlayers))
        return
    X = x[:, None]
    freqs_arr = np.asarray(freqs, dtype=float)
    if src in ('list', 'array', 'tuple'):
        user = np.asarray(kw['mask_freqs'], dtype=float)
        if not np.array_equal(freqs_arr[:len(user)], user) or len(freqs_arr) != len(user):
            w.violation('mask-frequencies', tag + ':user-list', 'returned mask frequencies %s are not the user\'s %s' % (freqs_arr, user))
            return
    else:
        if src == 'float':
            if freqs_arr[0] != kw['mask_freqs']:
                w.violation('mask-frequencies', tag + ':first', 'first mask frequency %r is not the requested %r' % (freqs_arr[0], kw['mask_freqs']))
                return
        else:
            with C.quiet_trace(w):
                first, _ = S.get_next_imf(X.copy(), **(imf_opts or {}))
                zref = S.get_mask_freqs(X.copy(), src, imf_opts=imf_opts)
            if src == 'zc':
                zc = int((np.diff(np.sign(first[:, 0])) != 0).sum())
                zspec = zc / float(X.shape[0]) / 4
                if abs(freqs_arr[0] - zspec) > 1e-12:
                    w.violation('mask-frequencies', tag + ':zc', 'first mask frequency %r is not zero-crossings/N/4 = %r of the first unmasked IMF' % (freqs_arr[0], zspec))
                    return
            if abs(freqs_arr[0] - zref) > 1e-12 * max(1.0, abs(zref)):
                w.violation('mask-frequencies', tag + ':' + src, 'first mask frequency %r differs from get_mask_freqs() = %r' % (freqs_arr[0], zref))
                return
        for i in range(len(freqs_arr)):
            want = freqs_arr[0] / kw['mask_step_factor'] ** i
            if abs(freqs_arr[i] - want) > 1e-12 * max(abs(want), 1e-300) * 4:
                w.violation('mask-ladder', tag, 'mask frequency %d is %r, expected first/step**%d = %r' % (i, freqs_arr[i], i, want))
                return
        if len(freqs_arr) != kw['max_imfs']:
            w.violation('mask-ladder', tag + ':length', '%d mask frequencies returned for max_imfs=%d' % (len(freqs_arr), kw['max_imfs']))
            return
    prev_sd = float(X.std())
    for i, (rec, bs) in enumerate(sched_calls):
        b = rec['bound']
        if float(b['z']) != float(freqs_arr[i]):
            w.violation('mask-frequencies', tag + ':used', 'layer %d used mask frequency %r but %r was returned' % (i, b['z'], freqs_arr[i]))
            return
        ma = kw['mask_amp']
        a_i = float(ma[i]) if isinstance(ma, (list, tuple, np.ndarray)) else float(ma)
        if amode == 'abs':
            sd = 1.0
        elif amode == 'ratio_sig':
            sd = float(X.std())
        else:
            sd = float(X.std()) if i == 0 else float(imf[:, i - 1].std())
        want_amp = a_i * sd
        if abs(float(b['amp']) - want_amp) > 1e-12 * max(1.0, abs(want_amp)):
            w.violation('mask-amplitude', '%s:%s' % (tag, amode),
                        'layer %d used mask amplitude %r, expected %r (mode %s, mask_amp %r)' % (i, b['amp'], want_amp, amode, a_i))
            return
        if not np.array_equal(rec['out'][0][:, 0], imf[:, i]):
            w.violation('mask-structure', tag + ':columns', 'returned IMF %d is not the output of masked extraction %d' % (i, i))
            return
        xin = np.asarray(rec['x'] if rec.get('x') is not None else b['X'], dtype=float).reshape(-1, 1)
        want_in = X - imf[:, :i].sum(axis=1)[:, None] if i > 0 else X
        if not C.rel_close(xin, want_in, 1e-12):
            w.violation('mask-structure', tag + ':input', 'masked extraction %d was not applied to the signal minus the previous IMFs' % i)
            return
