"""C18 - sift configurations are faithful, addressable and persistable.

Stateful simulation of a SiftConfig against a mirror dictionary that is edited with plain nested
indexing, with both YAML routes; the file route goes through the simulated disk, which injects
open/write/flush/close/read errors and torn writes.  Behavioural equivalence of the configured,
partial, and reloaded calls is compared bitwise.
"""
import copy

import numpy as np

import world as W
from signals import draw_signal
from props import common as C

ID = 'C18'
QUICK_RUNS = 2000
THOROUGH_RUNS = 120000
MAX_EXCLUDED_FRACTION = 0.2
SHRINK_RUNS = 300
SHRINK_S = 60
RULE = ('one run = one configuration of one sift variant taken through a drawn history of key-path edits, '
        'persistence operations (text and file route, with disk faults) and behavioural comparisons; distinct = '
        'distinct abstract history (variant, mode, operation kinds with path depth / value kind / route / fault '
        'site and outcome); non-trivial = at least one edit and one persistence round trip or behavioural '
        'comparison took place')
COMPONENTS = {'real': ['emd.sift.SiftConfig', 'emd.sift.get_config', 'get_func partials', 'PyYAML dump/load',
                       'the four sift variants for the behavioural comparisons'],
              'stub': ['file system (SimDisk: buffered writes, injected ENOSPC/EIO/EACCES, torn writes)',
                       'multiprocessing.Pool (SimPool, plain schedule)', 'clock']}
ASSUMPTIONS = ['only acknowledged saves (the call returned) carry obligations; a save that raised promises nothing about the file',
               'tuples, lists and arrays with equal elements are treated as equal option values',
               'values are restricted to what YAML can carry: python scalars, None, lists, tuples, 1-D arrays']

VARIANTS = ['sift', 'mask_sift', 'ensemble_sift', 'complete_ensemble_sift']
PATH = 'config.yml'      # relative to the run's scratch directory (the process chdir()s there)


def norm(v):
    if isinstance(v, np.ndarray):
        return norm(v.tolist())
    if isinstance(v, (list, tuple)):
        return [norm(x) for x in v]
    if isinstance(v, dict):
        return {k: norm(x) for k, x in v.items()}
    if isinstance(v, (bool, np.bool_)):
        return bool(v)
    if isinstance(v, (np.integer,)):
        return int(v)
    if isinstance(v, (np.floating,)):
        return float(v)
    return v


def same_value(a, b):
    a, b = norm(a), norm(b)
    if type(a) is not type(b) and not (isinstance(a, (int, float)) and isinstance(b, (int, float))
                                       and not isinstance(a, bool) and not isinstance(b, bool)):
        return False
    if isinstance(a, dict):
        return list(a.keys()) == list(b.keys()) and all(same_value(a[k], b[k]) for k in a)
    if isinstance(a, list):
        return len(a) == len(b) and all(same_value(p, q) for p, q in zip(a, b))
    return a == b


def same_options(a, b):
    """Like same_value but insensitive to key order (YAML round trip keeps order, models may not)."""
    a, b = norm(a), norm(b)
    if isinstance(a, dict) and isinstance(b, dict):
        return set(a) == set(b) and all(same_options(a[k], b[k]) for k in a)
    return same_value(a, b)


def all_paths(d, prefix=(), depth=3):
    out = []
    for k, v in d.items():
        p = prefix + (k,)
        out.append(p)
        if isinstance(v, dict) and len(p) < depth:
            out.extend(all_paths(v, p, depth))
    return out


def nested_get(d, parts):
    for p in parts:
        d = d[p]
    return d


def nested_set(d, parts, v):
    for p in parts[:-1]:
        d = d[p]
    d[parts[-1]] = v


def nested_del(d, parts):
    for p in parts[:-1]:
        d = d[p]
    del d[parts[-1]]


JUNK_VALUES = [
    ('int', lambda: 7), ('float', lambda: 0.125), ('negfloat', lambda: -2.5e-3), ('str', lambda: 'pchip'),
    ('strnum', lambda: '1e3'), ('strnull', lambda: 'null'), ('none', lambda: None), ('bool', lambda: True),
    ('list', lambda: [1, 2.5, 'a']), ('tuple', lambda: (0.05, 0.5, 0.05)), ('array', lambda: np.array([0.4, 0.2, 0.1])),
    ('intarray', lambda: np.arange(4)), ('dict', lambda: {'mode': 'mean', 'stat_length': 2}),
    ('nested_tuple', lambda: {'t': (1, 2), 'a': np.array([1.5, 2.5])}), ('emptylist', lambda: []), ('inf', lambda: float('inf')),
    ('list_of_tuples', lambda: [(1, 2), (3, 4)]), ('tuple_of_tuples', lambda: ((2, 3),)), ('tuple_in_list', lambda: [0.5, (1, 2)]),
]


def valid_edits(variant):
    """(path, value) edits that keep the configuration callable."""
    e = [('max_imfs', 2), ('max_imfs', 3), ('sift_thresh', 1e-6),
         ('imf_opts/sd_thresh', 0.2), ('imf_opts/sd_thresh', 0.05), ('imf_opts/env_step_size', 0.5),
         [('imf_opts/max_iters', 60), ('imf_opts/rilling_thresh', (0.2, 0.8, 0.2)), ('imf_opts/stop_method', 'rilling')],
         [('imf_opts/max_iters', 5), ('imf_opts/stop_method', 'fixed')], ('imf_opts/max_iters', 60),
         ('imf_opts/rilling_thresh', (0.1, 0.7, 0.1)),
         ('envelope_opts/interp_method', 'pchip'), ('envelope_opts/interp_method', 'mono_pchip'),
         ('extrema_opts/pad_width', 3), ('extrema_opts/pad_width', 1), ('extrema_opts/parabolic_extrema', True),
         ('extrema_opts/mag_pad_opts/stat_length', 2), ('extrema_opts/mag_pad_opts', {'mode': 'mean'}),
         ('extrema_opts/loc_pad_opts/reflect_type', 'odd'),
         ('extrema_opts/mag_pad_opts/stat_length', ((1, 1),)), ('extrema_opts/mag_pad_opts/stat_length', [(2, 2)])]
    if variant == 'mask_sift':
        e += [('mask_freqs', 0.2), ('mask_freqs', [0.3, 0.1, 0.05]), ('mask_freqs', np.array([0.25, 0.12, 0.06, 0.03])),
              ('mask_freqs', 'if'), ('mask_freqs', (0.3, 0.15)), ('mask_amp', 2), ('mask_amp', np.array([1, .5, 2, 1, 1, 1, 1, 1, 1.])),
              ('mask_amp_mode', 'abs'), ('mask_amp_mode', 'ratio_sig'), ('nphases', 2), ('mask_step_factor', 3),
              ('ret_mask_freq', True), ('nprocesses', 2)]
    if variant in ('ensemble_sift', 'complete_ensemble_sift'):
        e += [('nensembles', 2), ('nensembles', 3), ('ensemble_noise', 0.1), ('noise_mode', 'flip'), ('nprocesses', 2)]
    return e


VALID_DELETES = ['sift_thresh', 'extrema_opts/mag_pad_opts', 'extrema_opts/loc_pad_opts', 'imf_opts/energy_thresh',
                 'envelope_opts', 'extrema_opts/parabolic_extrema', 'imf_opts/rilling_thresh', 'extrema_opts']


def _same_result(a, b):
    """Bitwise equality of call results.  The outer tuple structure must agree; inside it a sequence returned
    verbatim from the options (mask frequencies) may be an array in one call and a list in the other."""
    if isinstance(a, tuple) and isinstance(b, tuple) and any(isinstance(p, np.ndarray) and p.ndim == 2 for p in a):
        return len(a) == len(b) and all(_same_result(p, q) for p, q in zip(a, b))
    seq = (np.ndarray, list, tuple)
    if isinstance(a, seq) or isinstance(b, seq):
        if not (isinstance(a, seq) and isinstance(b, seq)):
            return False
        try:
            x, y = np.asarray(a, dtype=float), np.asarray(b, dtype=float)
        except (TypeError, ValueError):
            return same_value(a, b)
        return x.shape == y.shape and np.array_equal(x, y, equal_nan=True)
    return same_value(a, b)


def scenario(w):
    ch = w.ch
    emd = C.emd()
    S = emd.sift
    C.plain_poolcfg(w)
    w.trace_on = False
    variant = ch.choice('variant', VARIANTS)
    mode = ch.wchoice('mode', ['behaviour', 'addressing'], [1, 1])
    x, sdesc = draw_signal(ch, 64, 128)
    hist = []
    w.sample = {'variant': variant, 'mode': mode, 'signal': sdesc, 'history': hist}
    nedits = [0]
    nobs = [0]

    def call(thunk):
        np.random.seed(4242)
        try:
            return thunk(), None
        except W.InjectedFault:
            raise
        except Exception as e:
            C.reraise_if_harness(e)
            return None, e

    conf = S.get_config(variant)
    model = copy.deepcopy(dict(conf.store))
    if conf.sift_type != variant:
        w.violation('config-type', variant, 'get_config(%r).sift_type is %r' % (variant, conf.sift_type))
        return

    # ---- default configuration reproduces the call with no options ----------------------------------
    if mode == 'behaviour' and ch.flag('check_default', 1, 2):
        plain, e0 = call(lambda: getattr(S, variant)(x.copy()))
        viaconf, e1 = call(lambda: getattr(S, variant)(x.copy(), **conf))
        viafunc, e2 = call(lambda: conf.get_func()(x.copy()))
        hist.append('default-equivalence')
        nobs[0] += 1
        if e0 is not None:
            w.probe('plain_call_raised')
        elif e1 is not None or e2 is not None or not _same_result(plain, viaconf) or not _same_result(plain, viafunc):
            w.violation('default-config-differs', variant,
                        '%s(x, **get_config(%r)) / get_func()(x) does not reproduce %s(x): %s' % (
                            variant, variant, variant, 'raised %r' % (e1 or e2,) if (e1 or e2) else 'results differ'))
            return

    def set_conf(new):
        nonlocal conf
        conf = new

    def check_store(after):
        if not same_value(conf.store, model):
            w.violation('keypath', after, 'after %s the configuration holds %r, nested indexing gives %r (history: %s)'
                        % (after, norm(conf.store), norm(model), hist))
            return False
        if list(conf) != list(model.keys()) or len(conf) != len(model):
            w.violation('keypath', 'iteration', 'iteration/len disagree with the stored options after %s' % after)
            return False
        return True

    def read_all():
        for parts in all_paths(model):
            path = '/'.join(parts)
            try:
                got = conf[path]
            except Exception as e:
                C.reraise_if_harness(e)
                w.violation('keypath', 'get:%d' % len(parts), 'reading %r raised %r but nested indexing finds %r' % (path, e, norm(nested_get(model, parts))))
                return False
            if not same_value(got, nested_get(model, parts)):
                w.violation('keypath', 'get:%d' % len(parts), 'reading %r gives %r, nested indexing gives %r' % (path, norm(got), norm(nested_get(model, parts))))
                return False
        return True

    def do_edit(kind, path, value=None, vkind=''):
        parts = path.split('/')
        tag = '%s:%d' % (kind, len(parts))
        # the mirror, by nested indexing
        m_exc = None
        try:
            if len(parts) > 3:
                raise ValueError('too deep')
            if kind == 'set':
                nested_set(model, parts, copy.deepcopy(value))
            elif kind == 'del':
                nested_del(model, parts)
            else:
                nested_get(model, parts)
        except Exception as e:
            m_exc = e
        c_exc = None
        # the documented alternative to a key path: chained indexing on the configuration object itself
        chained = 2 <= len(parts) <= 3 and ch.flag('edit.chained', 1, 3)
        try:
            if chained:
                tgt = conf[parts[0]] if len(parts) == 2 else conf[parts[0]][parts[1]]
                if kind == 'set':
                    tgt[parts[-1]] = value
                elif kind == 'del':
                    del tgt[parts[-1]]
                else:
                    got = tgt[parts[-1]]
            elif kind == 'set':
                conf[path] = value
            elif kind == 'del':
                del conf[path]
            else:
                got = conf[path]
        except Exception as e:
            if not chained:          # with chained indexing the raising frame is this one, by construction
                C.reraise_if_harness(e)
            c_exc = e
        hist.append('%s%s(%s%s)%s' % (kind, '[chained]' if chained else '', path, '=' + vkind if vkind else '',
                                      ' -> ' + type(c_exc).__name__ if c_exc else ''))
        w.log('op', op=kind, path=path, vkind=vkind, raised=type(c_exc).__name__ if c_exc else None)
        if (m_exc is None) != (c_exc is None):
            w.violation('keypath', tag + ':raise-mismatch',
                        '%s %r: key path %s, nested indexing %s (history: %s)' % (
                            kind, path, 'raised %r' % (c_exc,) if c_exc else 'succeeded',
                            'raised %r' % (m_exc,) if m_exc else 'succeeded', hist))
            return False
        if kind == 'get' and c_exc is None and not same_value(got, nested_get(model, parts)):
            w.violation('keypath', tag, 'reading %r gives %r, nested indexing gives %r' % (path, norm(got), norm(nested_get(model, parts))))
            return False
        if kind != 'get' and c_exc is None:
            nedits[0] += 1
        return check_store(tag)

    def persist(route, fault):
        """Round trip through YAML; returns loaded config or None.  False after a violation."""
        loaded = None
        if route == 'text':
            txt, e = call(conf.to_yaml_text)
            if e is not None:
                w.violation('yaml-roundtrip', 'text:dump-failed', 'to_yaml_text raised %r for options %r' % (e, norm(model)))
                return False
            how = ch.choice('text.how', ['str', 'stream'])
            if how == 'str':
                loaded, e = call(lambda: S.SiftConfig.from_yaml_stream(txt))
            else:
                import io
                loaded, e = call(lambda: S.SiftConfig.from_yaml_stream(io.StringIO(txt)))
            hist.append('roundtrip(text/%s)' % how)
            if e is not None:
                w.violation('yaml-roundtrip', 'text:load-failed', 'from_yaml_stream raised %r on the text written by to_yaml_text' % (e,))
                return False
        else:
            saved_ok = False
            if fault in ('save', 'both'):
                w.disk.arm(ch.pick('fault.io.at', 40), ch.pick('fault.io.err', 3))
            _, e = call(lambda: conf.to_yaml_file(PATH))
            fired_save = w.disk.plan is not None and w.disk.opcount > w.disk.plan['at']
            w.disk.disarm()
            if e is None:
                saved_ok = True
            elif not isinstance(e, OSError) or not fired_save:
                w.violation('yaml-roundtrip', 'file:save-failed', 'to_yaml_file raised %r with no disk fault' % (e,))
                return False
            hist.append('save(file%s)%s' % (',fault' if fired_save else '', '' if saved_ok else ' -> ' + type(e).__name__))
            if not saved_ok:
                w.probe('save_failed_under_fault')
                return None          # nothing acknowledged, nothing demanded
            if fired_save:
                w.probe('save_acknowledged_despite_fault')
            if fault in ('load', 'both'):
                w.disk.arm(ch.pick('fault.io.load_at', 4), ch.pick('fault.io.err2', 3))
            loaded, e = call(lambda: S.SiftConfig.from_yaml_file(PATH))
            fired_load = w.disk.plan is not None and w.disk.opcount > w.disk.plan['at']
            w.disk.disarm()
            hist.append('load(file%s)%s' % (',fault' if fired_load else '', '' if e is None else ' -> ' + type(e).__name__))
            if e is not None:
                if isinstance(e, OSError) and fired_load:
                    w.probe('load_failed_under_fault')
                    return None
                w.violation('yaml-roundtrip', 'file:load-failed' + (':after-fault' if fired_save else ''),
                            'from_yaml_file raised %r on a file whose save was acknowledged%s' % (
                                e, ' (a disk fault fired during that save)' if fired_save else ''))
                return False
        nobs[0] += 1
        if route == 'file' and isinstance(loaded.store, dict) and ch.flag('edit_loaded_and_reload', 1, 3):
            # the loaded object is edited; reading the unchanged file again must still give what was saved
            try:
                for g in ('imf_opts', 'extrema_opts', 'envelope_opts'):
                    if isinstance(loaded.store.get(g), dict):
                        loaded.store[g]['edited_after_load'] = 123
                        for k2 in list(loaded.store[g]):
                            if isinstance(loaded.store[g][k2], (int, float)) and not isinstance(loaded.store[g][k2], bool):
                                loaded.store[g][k2] = 0.777
                loaded['sift_thresh'] = 0.5
            except Exception as e:
                C.reraise_if_harness(e)
            again, e = call(lambda: S.SiftConfig.from_yaml_file(PATH))
            hist.append('edit-loaded+reload')
            if e is not None:
                w.violation('yaml-roundtrip', 'file:reload-failed', 'reading an unchanged, acknowledged file a second time raised %r' % (e,))
                return False
            loaded = again
        if loaded.sift_type != conf.sift_type:
            w.violation('yaml-roundtrip', route + ':sift_type',
                        '%s route: sift_type %r came back as %r' % (route, conf.sift_type, loaded.sift_type))
            return False
        if not isinstance(loaded.store, dict) or not same_options(loaded.store, model):
            w.violation('yaml-roundtrip', route + ':options',
                        '%s route: options %r came back as %r' % (route, norm(model), norm(loaded.store)))
            return False
        return loaded

    # ---- history -----------------------------------------------------------------------------------
    if mode == 'behaviour' and variant == 'complete_ensemble_sift':
        # without a cap the complete ensemble keeps extracting IMFs until the last one has fewer than two
        # peaks, which takes minutes under some stop rules; every behavioural comparison runs it four times
        if not do_edit('set', 'max_imfs', 2, 'int'):
            return
    nops = 1 + ch.pick('nops', 10 if w.tier == 'quick' else 24)
    edits = valid_edits(variant)
    for step in range(nops):
        if mode == 'addressing':
            kind = ch.wchoice('op', ['set', 'get', 'del', 'persist', 'decoy', 'rebuild'], [5, 2, 2, 2, 1, 1])
        else:
            kind = ch.wchoice('op', ['set', 'del', 'persist', 'behave', 'decoy', 'rebuild'], [5, 1, 2, 3, 1, 1])
        if kind in ('set', 'get', 'del') and mode == 'addressing':
            paths = ['/'.join(p) for p in all_paths(model)]
            src = ch.wchoice('path.src', ['existing', 'new-leaf', 'missing-parent', 'too-deep', 'under-scalar'], [6, 3, 1, 1, 1])
            if src == 'existing' and paths:
                path = paths[ch.pick('path.which', len(paths))]
            elif src == 'new-leaf':
                parents = [''] + [p for p in paths if isinstance(nested_get(model, p.split('/')), dict) and p.count('/') < 2]
                par = parents[ch.pick('path.parent', len(parents))]
                path = (par + '/' if par else '') + ['new_key', 'extra', 'pad_width'][ch.pick('path.leaf', 3)]
            elif src == 'missing-parent':
                path = 'no_such_group/' + ['x', 'y/z'][ch.pick('path.mp', 2)]
            elif src == 'too-deep':
                path = 'extrema_opts/mag_pad_opts/mode/deeper'
            else:
                path = 'max_imfs/sub'
            if kind == 'set':
                vk, mk = JUNK_VALUES[ch.pick('value', len(JUNK_VALUES))]
                if not do_edit('set', path, mk(), vk):
                    return
            else:
                if not do_edit(kind, path):
                    return
            if not read_all():
                return
        elif kind == 'rebuild':
            # the documented constructor: a configuration built from a plain dictionary of the same options
            how = ch.pick('rebuild.how', 2)
            try:
                if how == 0:
                    fresh = S.SiftConfig(conf.sift_type, copy.deepcopy(model))
                else:
                    fresh = S.SiftConfig(conf.sift_type)
                    fresh.update(copy.deepcopy(model))
            except Exception as e:
                C.reraise_if_harness(e)
                w.violation('keypath', 'rebuild:raised', 'building a SiftConfig from its own options raised %r' % (e,))
                return
            hist.append('rebuild(%s)' % ['constructor', 'update'][how])
            if fresh.sift_type != conf.sift_type or not same_value(fresh.store, model):
                w.violation('keypath', 'rebuild', 'a SiftConfig built from the options %r holds %r' % (norm(model), norm(fresh.store)))
                return
            set_conf(fresh)
            if not check_store('rebuild') or not read_all():
                return
        elif kind == 'decoy':
            # another configuration object is created and edited; this one must not notice
            hist.append('decoy')
            try:
                other = S.get_config(VARIANTS[ch.pick('decoy.variant', len(VARIANTS))])
                other['imf_opts/sd_thresh'] = 0.4321
                other['extrema_opts/mag_pad_opts/stat_length'] = 7
                other['envelope_opts'] = {'interp_method': 'mono_pchip'}
                del other['extrema_opts/pad_width']
            except Exception as e:
                C.reraise_if_harness(e)
                w.violation('keypath', 'decoy', 'editing a freshly created default configuration raised %r (history: %s)' % (e, hist))
                return
            if not check_store('decoy') or not read_all():
                return
        elif kind == 'set':
            ed = edits[ch.pick('edit', len(edits))]
            for path, value in (ed if isinstance(ed, list) else [ed]):
                if not do_edit('set', path, copy.deepcopy(value), type(value).__name__):
                    return
        elif kind == 'del':
            path = VALID_DELETES[ch.pick('vdel', len(VALID_DELETES))]
            if not do_edit('del', path):
                return
        elif kind == 'persist':
            route = ch.choice('route', ['text', 'file'])
            fault = ch.wchoice('fault.io', [None, 'save', 'load', 'both'], [3, 2, 1, 1]) if route == 'file' else None
            r = persist(route, fault)
            if r is False:
                return
        else:   # behave
            direct, e1 = call(lambda: getattr(S, variant)(x.copy(), **conf))
            if e1 is not None:
                w.probe('configured_call_raised:' + type(e1).__name__)
                hist.append('behave -> ' + type(e1).__name__)
                continue
            viafunc, e2 = call(lambda: conf.get_func()(x.copy()))
            hist.append('behave')
            nobs[0] += 1
            if e2 is not None or not _same_result(direct, viafunc):
                w.violation('config-behaviour', 'get_func', 'config.get_func()(x) %s, unlike %s(x, **config)' % (
                    'raised %r' % (e2,) if e2 else 'gives a different result', variant))
                return
            for route in ('text', 'file'):
                ld = persist(route, None)
                if ld is False:
                    return
                if ld is None:
                    continue
                res, e3 = call(lambda: ld.get_func()(x.copy()))
                if e3 is not None or not _same_result(direct, res):
                    w.violation('config-behaviour', 'reloaded:' + route,
                                'configuration reloaded through the %s route %s, unlike the original configuration' % (
                                    route, 'raised %r when called' % (e3,) if e3 else 'gives a different result'))
                    return

    w.sample = {'variant': variant, 'mode': mode, 'signal': sdesc, 'history': hist}
    w.cov = (variant, mode, tuple(hist))
    w.nontrivial = nedits[0] >= 1 and nobs[0] >= 1
