"""C20 - logging never changes results; verbosity overrides are temporary.

Stateful simulation of the process-global emd logger against a small model (console handler present?,
its level, globally disabled?).  Operation histories mix set_up / set_level / disable / enable with
sift-variant calls under every verbosity override that either return or are made to raise - by an invalid
argument, by the documented convergence error, or by a fault injected at an arbitrary stage entry.
"""
import logging

import numpy as np

import world as W
from signals import draw_signal
from props import common as C

ID = 'C20'
QUICK_RUNS = 2000
THOROUGH_RUNS = 120000
MAX_EXCLUDED_FRACTION = 0.1
SHRINK_RUNS = 300
SHRINK_S = 60
RULE = ('one run = one history of logger operations and sift-variant calls from the never-set-up or the set-up '
        'state; distinct = distinct abstract history (operation kinds, levels, variants, overrides, outcomes); '
        'non-trivial = the history contains a call with a verbosity override and either a raising call or a '
        'state-changing logger operation')
COMPONENTS = {'real': ['emd.logger (set_up, set_level, get_level, disable, enable, wrap_verbose, sift_logger)',
                       'stdlib logging / logging.config', 'all four decorated sift variants'],
              'stub': ['console stream and log file (in-memory sinks that can fail)', 'multiprocessing.Pool (SimPool, plain schedule)',
                       'clock (log timestamps)', 'fresh logger state per run']}
ASSUMPTIONS = ['the pristine never-set-up logger state is reconstructed by removing handlers and flags from the emd loggers',
               'pool variants run with a fixed generator seed and the plain schedule so results are bitwise comparable',
               'a failing log sink may at most make a call fail; if the call returns all obligations apply']

LEVELS = ['CRITICAL', 'WARNING', 'INFO', 'DEBUG']
VERBOSE = ['absent', 'DEBUG', 'INFO', 'WARNING', 'CRITICAL', None]
VARIANTS = ['sift', 'mask_sift', 'ensemble_sift', 'complete_ensemble_sift']
LOGFILE = 'emd.log'         # relative to the run's scratch directory


def _same(a, b):
    if isinstance(a, tuple) or isinstance(b, tuple):
        return isinstance(a, tuple) and isinstance(b, tuple) and len(a) == len(b) and all(_same(p, q) for p, q in zip(a, b))
    return isinstance(a, np.ndarray) and isinstance(b, np.ndarray) and a.shape == b.shape and np.array_equal(a, b, equal_nan=True)


def _spec_kwargs(spec):
    v = spec['variant']
    if v == 'sift':
        kw = {'max_imfs': 2}
    elif v == 'mask_sift':
        kw = {'max_imfs': 2, 'nphases': 2, 'nprocesses': spec['nproc'], 'mask_freqs': spec['mask_freqs']}
    else:
        kw = {'max_imfs': 2, 'nensembles': 2, 'nprocesses': spec['nproc'], 'noise_mode': spec['noise_mode']}
    for g in ('imf_opts', 'envelope_opts', 'extrema_opts'):
        if spec.get(g) is not None:
            kw[g] = dict(spec[g])
    return kw


def _invoke(S, spec, verbose, flavour, limit=None):
    """Perform the call; returns (result, exception)."""
    kw = _spec_kwargs(spec)
    x = spec['x'].copy()
    if flavour == 'invalid':
        x = np.zeros((x.shape[0], 2, 2))
    elif flavour == 'bad_interp':
        kw['envelope_opts'] = {'interp_method': 'no-such-method'}
    elif flavour == 'converge':
        kw['imf_opts'] = {'max_iters': 2, 'sd_thresh': 1e-14, 'stop_method': 'sd'}
    if verbose != 'absent':
        kw['verbose'] = verbose
    np.random.seed(spec['seed'])
    try:
        if limit is None:
            return getattr(S, spec['variant'])(x, **kw), None
        with C.time_limited(limit):
            return getattr(S, spec['variant'])(x, **kw), None
    except C.CallTimeout as e:
        return None, e
    except Exception as e:
        C.reraise_if_harness(e)
        return None, e


def scenario(w):
    ch = w.ch
    emd = C.emd()
    S, L = emd.sift, emd.logger
    C.plain_poolcfg(w)
    w.trace_on = True

    nspec = 1 + ch.pick('nspecs', 3)
    specs = []
    for i in range(nspec):
        x, sdesc = draw_signal(ch, 48, 96, label='sig%d' % i)
        specs.append({'variant': ch.choice('variant%d' % i, VARIANTS), 'x': x, 'signal': sdesc,
                      'nproc': 1 + ch.pick('nproc%d' % i, 2), 'seed': 777 + i,
                      'mask_freqs': ch.choice('mask_freqs%d' % i, ['zc', 0.2]),
                      'noise_mode': ch.choice('noise_mode%d' % i, ['single', 'flip']),
                      'imf_opts': ch.choice('imf_opts%d' % i, [None, {'sd_thresh': 0.002}, {'sd_thresh': 0.3, 'env_step_size': 0.5},
                                                               {'stop_method': 'rilling', 'rilling_thresh': (0.1, 0.7, 0.1), 'max_iters': 60},
                                                               {'stop_method': 'fixed', 'max_iters': 4},
                                                               {'energy_thresh': 40, 'sd_thresh': 0.05}]),
                      'envelope_opts': ch.choice('envelope_opts%d' % i, [None, None, {'interp_method': 'pchip'}]),
                      'extrema_opts': ch.choice('extrema_opts%d' % i, [None, None, {'pad_width': 3, 'parabolic_extrema': True}])})
    # references in the pristine, never-set-up state, no override
    refs = []
    for sp in specs:
        import engine
        t0 = engine._real_perf()
        r, e = _invoke(S, sp, 'absent', 'plain')
        sp['limit'] = max(20, int(40 * (engine._real_perf() - t0)))
        refs.append((r, e))
    if all(e is not None for _, e in refs):
        raise W.ExcludedRun('every call spec raises in the pristine state')
    del w.stage_trace[:]

    # ---- model ----------------------------------------------------------------------------------
    model = {'console': None, 'disabled': False, 'file': False}
    hist = []
    ops = []
    w.sample = {'specs': [{k: v for k, v in sp.items() if k not in ('x', 'limit')} for sp in specs], 'history': hist}

    def check_level(after):
        got = L.get_level()
        want = model['console']
        if got != want:
            state = 'never-set-up' if want is None else 'set-up'
            w.violation('level-after-op', '%s:%s' % (after, state),
                        'after %s the console level is %r but must be %r (history: %s)' % (after, got, want, hist))
            return False
        return True

    nops = 1 + ch.pick('nops', 12 if w.tier == 'quick' else 30)
    if ch.flag('start_set_up', 1, 2):
        ops.append(('set_up', None))
    sink_fault = ch.flag('fault.log_sink', 1, 8)
    sink_active = [False]
    for step in range(nops):
        if ops:
            kind, arg = ops.pop(0)
        else:
            kind = ch.wchoice('op', ['call', 'set_up', 'set_level', 'disable', 'enable', 'set_format'], [12, 4, 4, 2, 2, 1])
            arg = None
        if kind == 'set_up':
            lvl = ch.choice('set_up.level', [None] + LEVELS)
            lf = LOGFILE if ch.flag('set_up.file', 1, 3) else ''
            hist.append('set_up(level=%r%s)' % (lvl, ', file' if lf else ''))
            w.log('op', op='set_up', level=lvl, file=bool(lf))
            w.disk.disarm()          # a new set_up starts from a healthy disk; the sink may fail again afterwards
            L.set_up(level=lvl, log_file=lf)
            model['console'] = logging.INFO if lvl is None else getattr(logging, lvl)
            model['file'] = bool(lf)
            if sink_fault:
                how = ch.pick('fault.log_sink.how', 3)
                if how == 0:      # console writes start failing
                    w.stdout.fail_at = w.stdout.nwrites + 1 + ch.pick('fault.log_sink.at', 6)
                elif how == 1:    # the console stream has been closed behind the logger's back
                    w.stdout.close()
                    w.fault('log_sink_closed')
                elif lf:          # the disk under the log file fills up and stays full
                    w.disk.arm(ch.pick('fault.log_sink.disk_at', 8), 0, sticky=True)
                sink_active[0] = True
            if not check_level('set_up'):
                return
        elif kind == 'set_level':
            lvl = ch.choice('set_level.level', LEVELS)
            hist.append('set_level(%s)' % lvl)
            w.log('op', op='set_level', level=lvl)
            L.set_level(lvl)
            if model['console'] is not None:
                model['console'] = getattr(logging, lvl)
            if not check_level('set_level'):
                return
        elif kind == 'disable':
            hist.append('disable()')
            w.log('op', op='disable')
            L.disable()
            model['disabled'] = True
            if not check_level('disable'):
                return
        elif kind == 'set_format':
            fmt = ch.choice('set_format.name', ['brief', 'default', 'verbose', 'no-such-format'])
            hist.append('set_format(%s)' % fmt)
            w.log('op', op='set_format', fmt=fmt)
            try:
                L.set_format(formatter=fmt)
            except KeyError:
                pass                     # documented for unknown names; the level must not move either way
            if not check_level('set_format'):
                return
        elif kind == 'enable':
            hist.append('enable()')
            w.log('op', op='enable')
            L.enable()
            model['disabled'] = False
            if not check_level('enable'):
                return
        else:
            si = ch.pick('call.spec', nspec)
            sp = specs[si]
            verbose = VERBOSE[ch.pick('call.verbose', len(VERBOSE))]
            flavour = ch.wchoice('call.flavour', ['plain', 'stage_raise', 'invalid', 'converge', 'bad_interp'], [5, 3, 1, 1, 1])
            ref, ref_exc = refs[si]
            k = 0
            if flavour == 'stage_raise':
                k = 1 + ch.pick('fault.stage_at', 40)
                w.stage_fault = w.stage_entries + k
            desc = '%s(verbose=%r, %s%s)' % (sp['variant'], verbose, flavour, '@%d' % k if k else '')
            hist.append(desc)
            w.log('op', op='call', variant=sp['variant'], verbose=verbose, flavour=flavour, at=k)
            t0 = len(w.stage_trace)
            nfaults = w.faults.get('stage_raise', 0)
            res, exc = _invoke(S, sp, verbose, flavour, limit=sp['limit'] if flavour in ('plain', 'stage_raise') else None)
            fired = w.faults.get('stage_raise', 0) != nfaults
            w.stage_fault = None
            state = 'never-set-up' if model['console'] is None else 'set-up'
            made_to_raise = flavour in ('invalid', 'converge', 'bad_interp') or fired
            if exc is not None and verbose not in ('absent', None):
                w.probe('raise_with_override_active')
            if isinstance(exc, C.CallTimeout):
                w.violation('call-hangs', '%s:%s' % (sp['variant'], state),
                            '%s did not return within the time limit (40 x the pristine call, at least 20 s) in logger state %s although the same call returns at once in a '
                            'pristine state (history: %s)' % (desc, state, hist))
                return
            if exc is not None and not made_to_raise and sink_active[0] and isinstance(exc, (OSError, ValueError)):
                # (e) with a failing log sink a call may fail - but the level obligations below still hold
                w.probe('call_failed_under_sink_fault')
            elif exc is not None and not made_to_raise:
                if ref_exc is not None and type(ref_exc) is type(exc):
                    w.probe('spec_raises_in_pristine_state_too')
                else:
                    # (d) a call that returns without an override also returns with one, in every logger state
                    w.violation('call-failed', '%s:%s:%s' % (state, 'override' if verbose not in ('absent', None) else 'no-override',
                                                             type(exc).__name__),
                                '%s raised %r in logger state %s although the same call returns in a pristine state '
                                '(history: %s)' % (desc, exc, state, hist))
                    return
            if exc is None and not made_to_raise:
                if ref_exc is None and not _same(res, ref):
                    w.violation('result-differs', '%s:%s' % (sp['variant'], state),
                                '%s returned a different result than the same call in a pristine logger state '
                                '(history: %s)' % (desc, hist))
                    return
            if exc is None and made_to_raise and flavour != 'stage_raise':
                w.probe('expected_raise_did_not_raise')
            # (b) while the override is in force the console handler carries the requested level
            if verbose not in ('absent', None) and model['console'] is not None:
                want = getattr(logging, verbose)
                for rec in w.stage_trace[t0:]:
                    if rec['parent'] is None:
                        continue      # the entry of the decorated call itself precedes the override
                    if rec['level'] != want:
                        w.violation('override-not-in-force', sp['variant'],
                                    '%s: console level inside the call was %r, requested %r' % (desc, rec['level'], want))
                        return
            # (a) whatever happened, the previous level is back
            outcome = 'call-raise' if exc is not None else 'call-return'
            if not check_level(outcome + (':override' if verbose not in ('absent', None) else ':no-override')):
                return
            hist[-1] = desc + (' -> raised %s' % type(exc).__name__ if exc is not None else ' -> returned')

    w.sample = {'specs': [{k: v for k, v in sp.items() if k != 'x'} for sp in specs], 'history': hist,
                'log_sink_fault': sink_fault}
    w.cov = tuple(hist)
    has_override_call = any('verbose=' in h and "verbose='absent'" not in h and 'verbose=None' not in h
                            and h.split('(')[0] in VARIANTS for h in hist)
    w.nontrivial = has_override_call and (any('raised' in h for h in hist) or
                                          any(h.startswith(('set_up', 'set_level', 'disable', 'enable', 'set_format')) for h in hist))
