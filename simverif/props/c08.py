"""C08 - ensemble sifts average genuinely independent noise realisations.

Workload: ensemble_sift / complete_ensemble_sift under the simulated pool (fork or spawn workers,
seeded job->worker schedules, respawns, parent generator histories).  Oracle over the recorded
history: member inputs pairwise distinct (bitwise) and uncorrelated, flip-mode structure, output =
per-IMF mean of the recorded member results, zero-noise reduction to the classic sift.
"""
import numpy as np

import world as W
from signals import draw_signal
from props import common as C

ID = 'C08'
QUICK_RUNS = 1600
THOROUGH_RUNS = 200000
MAX_EXCLUDED_FRACTION = 0.25
SHRINK_RUNS = 300
SHRINK_S = 60
FIDELITY_CASES = {'quick': 8, 'thorough': 48}   # real-pool executions replayed in the simulator
RULE = ('one run = one ensemble call under one seeded pool schedule; distinct = distinct tuple '
        '(variant, start method, noise mode, canonical job->worker partition of every member batch, '
        'respawn positions); non-trivial = at least two workers executed member jobs and noise > 0')
COMPONENTS = {'real': ['emd.sift.ensemble_sift', 'emd.sift.complete_ensemble_sift', 'emd.sift._sift_with_noise',
                       'emd.sift.sift and all stage functions', 'numpy global RandomState', 'pickle transport',
                       'emd.logger decorators'],
              'stub': ['multiprocessing.Pool (SimPool: fork/spawn state model, seeded scheduler)',
                       'process identity / pid', 'clock', 'OS entropy']}
ASSUMPTIONS = ['pool workers interact only through task and result queues, so a pool call is determined by the '
               'fork-time snapshot, the per-worker task order, completion order and respawns (validated against '
               'the real pool by `check selftest fidelity`)',
               'two independent continuous noise draws are never bitwise equal',
               'members with fewer IMFs than the cap (ragged ensembles) are excluded, not judged']

CORR_LIMIT = 0.8


def _maxcorr(a, b):
    """Largest absolute normalised circular cross-correlation of two mean-removed vectors."""
    a = a - a.mean()
    b = b - b.mean()
    na, nb = np.linalg.norm(a), np.linalg.norm(b)
    if na == 0 or nb == 0:
        return 0.0
    fa, fb = np.fft.rfft(a), np.fft.rfft(b)
    cc = np.fft.irfft(fa * np.conj(fb), n=len(a))
    return float(np.max(np.abs(cc)) / (na * nb))


def scenario(w):
    ch = w.ch
    emd = C.emd()
    S = emd.sift
    variant = ch.wchoice('variant', ['ensemble_sift', 'complete_ensemble_sift'], [3, 1])
    x, sdesc = draw_signal(ch, 96, 400)
    nens = 1 + ch.weighted('nensembles', [1, 3, 3, 3, 2, 2, 1, 1])
    nproc = 1 + ch.weighted('nprocesses', [2, 4, 4, 3, 2, 1, 1, 1])
    mode = ch.choice('noise_mode', ['single', 'flip'])
    level = ch.wchoice('ensemble_noise', [0.2, 0.05, 1.0, 0.0], [4, 2, 2, 1])
    max_imfs = ch.wchoice('max_imfs', [2, 1, 3, None], [4, 3, 3, 1])
    if variant == 'complete_ensemble_sift' and max_imfs is None:
        max_imfs = 2
    cfg = C.draw_poolcfg(w)
    hist = C.draw_parent_rng_history(w)
    w.sample = {'variant': variant, 'signal': sdesc, 'nensembles': nens, 'nprocesses': nproc,
                'noise_mode': mode, 'ensemble_noise': level, 'max_imfs': max_imfs, 'pool': dict(cfg),
                'parent_rng': hist}
    w.log('call', **{k: v for k, v in w.sample.items() if k not in ('pool',)})

    kw = dict(nensembles=nens, nprocesses=nproc, noise_mode=mode, ensemble_noise=level, max_imfs=max_imfs)
    # state carried from one ensemble call to the next in the same process must not matter: in a quarter of the
    # runs the same call is made twice and each call is judged on its own
    if ch.flag('prelude_other_variant', 1, 4):
        # history: the other ensemble variant has been used earlier in this interpreter
        other = 'complete_ensemble_sift' if variant == 'ensemble_sift' else 'ensemble_sift'
        try:
            getattr(S, other)(x[:96].copy(), nensembles=2, nprocesses=1 + ch.pick('prelude.nproc', 2), max_imfs=1)
        except Exception as e:
            C.reraise_if_harness(e)
        w.probe('prelude_call')
        w.sample['prelude'] = other
    ncalls = 2 if ch.flag('second_call', 1, 4) else 1
    w.sample['calls'] = ncalls
    for ci in range(ncalls):
        t0, b0 = len(w.stage_trace), len(w.batches)
        out, exc = None, None
        try:
            out = getattr(S, variant)(x.copy(), **kw)
        except W.InjectedFault:
            raise
        except Exception as e:   # judged below
            C.reraise_if_harness(e)
            exc = e
        nv = len(w.violations)
        _judge(w, emd, S, variant, x, kw, cfg, out, exc, t0, b0, ci)
        if len(w.violations) != nv:
            return


def _judge(w, emd, S, variant, x, kw, cfg, out, exc, t0, b0, ci):
    nens, nproc, mode, level, max_imfs = kw['nensembles'], kw['nprocesses'], kw['noise_mode'], kw['ensemble_noise'], kw['max_imfs']
    trace = w.stage_trace[t0:]
    batches = w.batches[b0:]
    X = x[:, None]
    member_batches = [b for b in batches if getattr(b['func'], '__name__', '') != 'sift']
    sig_parts = []
    for b in member_batches:
        sig_parts.append(C.partition_signature(b))
    w.sample['schedule' if ci == 0 else 'schedule_call2'] = [{'batch': b['id'], 'func': getattr(b['func'], '__name__', '?'),
                             'assign': b['assign'], 'completion_order': b['order'],
                             'respawn_before_chunks': b['respawns']} for b in batches]
    nworkers_used = max([len(set(p)) for p in sig_parts] or [0])
    if ci == 0:
        w.cov = (variant, cfg['start'], mode, tuple(sig_parts[:4]), tuple(tuple(b['respawns']) for b in member_batches[:4]))
        w.nontrivial = nworkers_used >= 2 and level > 0 and nens >= 2
    if nworkers_used >= 2:
        w.probe('two_or_more_workers_used')
    if cfg['start'] == 'fork' and nworkers_used >= 2:
        w.probe('fork_multiworker')

    # ---- collect member observations -------------------------------------------------------
    # A member is one _sift_with_noise call made underneath the top-level call, in whatever process and
    # however the implementation packs members into pool jobs; members are grouped per pool batch (one
    # batch per IMF for the complete ensemble).  Fallback when no such call is seen: one member per job.
    top = [r for r in trace if r['parent'] is None and r['stage'] == variant]
    swn_recs = [r for r in trace if r['stage'] == '_sift_with_noise']
    kids = {}
    for r in trace:
        if r['parent'] is not None:
            kids.setdefault(r['parent'], []).append(r)
    members = []   # per member batch: list of dict(inputs=[...], outs=[...], result, ...)
    member_gids = []
    ragged = False
    worker_of = {}
    for b in batches:
        for ti, rec in enumerate(b['tasks']):
            if rec is not None:
                worker_of[(b['id'], ti)] = rec['worker']
    if swn_recs:
        groups = {}
        for r in swn_recs:
            groups.setdefault(r['task'][0] if r['task'] is not None else -1, []).append(r)
        for gid in sorted(groups):
            member_gids.append(gid)
            ms = []
            for r in groups[gid]:
                inner = [k for k in kids.get(r['id'], []) if k['stage'] == 'sift']
                ok = 'out' in r
                ms.append({'index': len(ms), 'ok': ok, 'result': r.get('out') if ok else r.get('exc'),
                           'worker': worker_of.get(r['task'], 0) if r['task'] is not None else 0,
                           'inputs': [k['x'] for k in inner], 'outs': [k.get('out') for k in inner],
                           'Xarg': r['x']})        # the signal as it was when the member was entered
            members.append(ms)
    else:
        w.probe('members_from_pool_jobs')
        for b in member_batches:
            ms = []
            for ti in range(b['n']):
                rec = b['tasks'][ti]
                if rec is None:
                    continue
                inner = [r for r in C.tasks_stage_records(w, b['id'], ti, 'sift')
                         if r['parent'] is None or w.stage_trace[r['parent']]['stage'] != 'sift']
                ms.append({'index': ti, 'ok': rec['ok'], 'result': rec['result'], 'worker': rec['worker'],
                           'inputs': [r['x'] for r in inner], 'outs': [r.get('out') for r in inner], 'Xarg': None})
            members.append(ms)
    for ms in members:
        shapes = set()
        for m in ms:
            if m['ok'] and isinstance(m['result'], np.ndarray):
                shapes.add(m['result'].shape)
            for o in m['outs']:
                if isinstance(o, np.ndarray):
                    shapes.add(o.shape)
        if len(shapes) > 1:
            ragged = True
    want_cols = max_imfs
    for ms in members[:1] if variant == 'ensemble_sift' else []:
        if not (ms and ms[0]['ok'] and isinstance(ms[0]['result'], np.ndarray)):
            continue
        for m in ms:
            if m['ok'] and isinstance(m['result'], np.ndarray):
                k = want_cols if want_cols is not None else ms[0]['result'].shape[1]
                if m['result'].shape[1] < k:
                    ragged = True

    if exc is not None:
        if ragged or isinstance(exc, emd.support.EMDSiftCovergeError):
            w.probe('ragged_members')
            raise W.ExcludedRun('ragged ensemble members (%s)' % type(exc).__name__)
        w.violation('call-failed', '%s:%s' % (variant, type(exc).__name__),
                    '%s(%s) raised %r on a valid workload' % (variant, kw, exc))
        return
    if ragged:
        w.probe('ragged_members_no_raise')
        raise W.ExcludedRun('ragged ensemble members')
    if not members or not members[0]:
        raise W.HarnessError('no ensemble members observed (vacuity guard)')

    imf = out if variant == 'ensemble_sift' else out[0]

    # ---- member count --------------------------------------------------------------------
    for ms in members:
        if len(ms) != nens:
            w.violation('member-count', variant, '%s decomposed %d ensemble members for nensembles=%d' % (variant, len(ms), nens))
            return

    # ---- 0. every member starts from the same signal: the caller's (ensemble) / the current residue (complete) --
    X0 = x[:, None]
    for bi, ms in enumerate(members):
        sigs = [m['Xarg'] for m in ms if m['Xarg'] is not None]
        if len(sigs) != len(ms):
            continue
        ref = X0 if (variant == 'ensemble_sift' or bi == 0) else np.asarray(sigs[0]).reshape(X0.shape)
        for m in ms:
            if not np.array_equal(np.asarray(m['Xarg']).reshape(X0.shape), ref):
                w.violation('member-signal', variant,
                            '%s batch %d: member %d was not handed the signal the other members decompose (max abs '
                            'difference %.3g): noise from one member leaked into the next'
                            % (variant, bi, m['index'], float(np.max(np.abs(np.asarray(m['Xarg']).reshape(X0.shape) - ref)))))
                return

    # ---- 1. distinct, uncorrelated realisations --------------------------------------------
    for bi, ms in enumerate(members):
        if any(not m['inputs'] for m in ms):
            raise W.HarnessError('member without an observed sift input (vacuity guard)')
        firsts = [m['inputs'][0] for m in ms]
        # complete ensemble: only the first batch uses the freshly drawn noise matrix; later batches use
        # residues of that noise, which may legitimately coincide, vanish or be smooth trends
        if level > 0 and (variant == 'ensemble_sift' or bi == 0):
            dig = [W.adigest(a) for a in firsts]
            groups = {}
            for i, d in enumerate(dig):
                groups.setdefault(d, []).append(i)
            dups = [g for g in groups.values() if len(g) > 1]
            if dups:
                workers = [ms[i]['worker'] for i in range(len(ms))]
                w.violation('duplicate-noise', '%s:%s' % (variant, w.poolcfg['start'] if nproc > 1 else 'single-worker'),
                            '%s batch %d: members %s were sifted with bitwise identical noisy inputs '
                            '(job->worker %s, nprocesses=%d, start=%s)' %
                            (variant, bi, dups, workers, nproc, cfg['start']))
                w.probe('duplicate_noise_seen')
                continue
            base = ms[0]['Xarg'] if ms[0]['Xarg'] is not None else (X if variant == 'ensemble_sift' and bi == 0 else None)
            if base is not None:
                base = np.asarray(base).reshape(firsts[0].shape)
                for i, a in enumerate(firsts):
                    if np.array_equal(a, base):
                        w.violation('no-noise-added', variant,
                                    '%s batch %d member %d was sifted without noise although ensemble_noise=%g'
                                    % (variant, bi, i, level))
                        break
                noises = [np.ravel(a - base) for a in firsts]
                worst = (0.0, None)
                for i in range(len(noises)):
                    for j in range(i + 1, len(noises)):
                        c = _maxcorr(noises[i], noises[j])
                        if c > worst[0]:
                            worst = (c, (i, j))
                if worst[0] > CORR_LIMIT:
                    w.violation('correlated-noise', variant,
                                '%s batch %d: noise of members %s has |cross-correlation| %.3f (independent draws of '
                                'this length stay below %.1f)' % (variant, bi, worst[1], worst[0], CORR_LIMIT))

    # ---- 5. complete ensemble: every member keeps its own noise column from IMF to IMF -----------------------
    if variant == 'complete_ensemble_sift' and level > 0 and len(member_gids) == len(members) and len(members) > 1:
        nsift = {}
        for r in trace:
            if r['stage'] == 'sift' and r['task'] is not None and 'out' in r and \
                    (r['parent'] is None or w.stage_trace[r['parent']]['stage'] == variant):
                nsift.setdefault(r['task'][0], []).append(r)
        for k in range(1, len(members)):
            prev = [g for g in sorted(nsift) if g < member_gids[k]]
            if not prev:
                continue
            src = nsift[prev[-1]]
            ms = members[k]
            if len(src) != len(ms) or any(not m['inputs'] or m['Xarg'] is None for m in ms):
                continue
            expect = [np.ravel(r['x']) - np.ravel(r['out'][:, 0]) for r in src]
            scale = max(1.0, max(float(np.max(np.abs(e))) for e in expect))
            free = list(range(len(expect)))
            for m in ms:
                obs = np.ravel(m['inputs'][0]) - np.ravel(m['Xarg'])
                hit = None
                for j in free:
                    if expect[j].shape == obs.shape and float(np.max(np.abs(expect[j] - obs))) <= 1e-10 * scale:
                        hit = j
                        break
                if hit is None:
                    w.violation('ceemd-noise-chain', variant,
                                'complete_ensemble_sift IMF %d: member %d was not given its own noise column (the residue of a '
                                'column that no other member received after removing that column\'s first IMF)' % (k, m['index']))
                    break
                free.remove(hit)
            w.probe('ceemd_noise_chain_checked')
            if w.violations:
                return

    # ---- 2. flip mode ------------------------------------------------------------------------
    for bi, ms in enumerate(members):
        for m in ms:
            nin = len(m['inputs'])
            if mode == 'single':
                if nin != 1:
                    w.violation('single-structure', variant,
                                'single mode: member %d made %d sifts' % (m['index'], nin))
                    return
                if not C.rel_close(m['result'], m['outs'][0], 1e-12):
                    w.violation('member-result', '%s:single' % variant,
                                'member %d result is not the decomposition of its noisy input' % m['index'])
                    return
            else:
                if nin != 2:
                    w.violation('flip-structure', variant,
                                'flip mode: member %d made %d sifts instead of 2' % (m['index'], nin))
                    return
                a, b2 = m['inputs']
                base = m['Xarg'] if m['Xarg'] is not None else (X if variant == 'ensemble_sift' else None)
                if level > 0 and (variant == 'ensemble_sift' or bi == 0) and np.array_equal(a, b2):
                    w.violation('flip-structure', variant, 'flip mode: member %d used the same input twice' % m['index'])
                    return
                if base is not None:
                    base = np.asarray(base).reshape(a.shape)
                    if not C.rel_close(a + b2, 2 * base, 1e-12):
                        w.violation('flip-structure', variant,
                                    'flip mode: member %d inputs are not X+n and X-n (max rel err %.3g)'
                                    % (m['index'], C.max_rel_err(a + b2, 2 * base)))
                        return
                oa, ob = m['outs']
                if oa.shape == ob.shape and not C.rel_close(m['result'], (oa + ob) / 2, 1e-12):
                    w.violation('flip-mean', variant,
                                'flip mode: member %d result is not the mean of the +noise and -noise decompositions '
                                '(max rel err %.3g)' % (m['index'], C.max_rel_err(m['result'], (oa + ob) / 2)))
                    return

    # ---- 3. mean over members ----------------------------------------------------------------
    if variant == 'ensemble_sift':
        ms = members[0]
        K = imf.shape[1]
        if max_imfs is not None and K != max_imfs:
            w.violation('output-shape', variant, 'ensemble_sift returned %d columns for max_imfs=%d' % (K, max_imfs))
            return
        want = np.stack([m['result'][:, :K] for m in ms]).mean(axis=0)
        if not C.rel_close(imf, want, 1e-12):
            w.violation('ensemble-mean', variant,
                        'ensemble_sift output is not the per-IMF mean over the %d member decompositions '
                        '(max rel err %.3g)' % (len(ms), C.max_rel_err(imf, want)))
            return
    else:
        if imf.shape[1] != len(members):
            w.violation('ensemble-mean', variant + ':columns',
                        'complete_ensemble_sift returned %d IMFs from %d member batches' % (imf.shape[1], len(members)))
            return
        for j, ms in enumerate(members):
            want = np.stack([m['result'] for m in ms]).mean(axis=0)
            if not C.rel_close(imf[:, j:j + 1], want, 1e-12):
                w.violation('ensemble-mean', variant,
                            'complete_ensemble_sift IMF %d is not the mean over its %d member results (max rel err %.3g)'
                            % (j, len(ms), C.max_rel_err(imf[:, j:j + 1], want)))
                return

    # ---- 4. zero noise -----------------------------------------------------------------------
    if variant == 'ensemble_sift' and level == 0:
        w.probe('zero_noise_checked')
        with C.quiet_trace(w):
            ref = S.sift(x.copy(), max_imfs=max_imfs)
        K = min(ref.shape[1], imf.shape[1])
        if ref.shape[1] != imf.shape[1] or not C.rel_close(imf, ref, 1e-10):
            w.violation('zero-noise', variant,
                        'ensemble_sift with ensemble_noise=0 differs from sift with the same cap '
                        '(shapes %s vs %s, max rel err %s)' % (imf.shape, ref.shape,
                                                                C.max_rel_err(imf[:, :K], ref[:, :K])))
