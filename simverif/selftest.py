"""Self-tests of the machinery itself: environment, determinism regime, pool-model fidelity."""
import json
import os
import subprocess
import sys
import time

HERE = os.path.dirname(os.path.abspath(__file__))
VERIF = os.path.dirname(HERE)


def log(*a):
    print(*a, flush=True)


def env():
    import importlib
    for m in ('numpy', 'scipy', 'yaml', 'pandas'):
        importlib.import_module(m)
    import cli
    with cli.make_executor(1) as ex:
        where = ex.submit(_import_emd).result(timeout=300)
    log('env ok: emd imported from %s' % where)
    return 0


def _import_emd():
    import seams
    emd = seams.install()
    return os.path.dirname(emd.__file__)


# ----------------------------------------------------------------------------------------------


def _digests(pid, seed, nruns, procs, hashseed, chunk):
    """Run nruns runs of pid in a fresh interpreter; return {index: (digest, status, violation keys)}."""
    code = (
        "import sys, json; sys.path.insert(0, %r)\n"
        "import cli\n"
        "res, _, _ = cli.run_batch(%r, %d, 'quick', %d, %d, 0, chunk=%d, keep_first=0)\n"
        "print('@@' + json.dumps({str(r['i']): [r['digest'], r['status'], sorted([v['class'], v['signature']] for v in r['viol'])] for r in res}))\n"
    ) % (HERE, pid, seed, nruns, procs, chunk)
    envv = dict(os.environ, PYTHONHASHSEED=str(hashseed), PYTHONDONTWRITEBYTECODE='1')
    out = subprocess.run([sys.executable, '-B', '-c', code], env=envv, capture_output=True, text=True, timeout=3600)
    for line in out.stdout.splitlines():
        if line.startswith('@@'):
            return json.loads(line[2:])
    raise RuntimeError('determinism child failed:\n' + out.stdout[-2000:] + out.stderr[-4000:])


def determinism(nruns, procs, seed):
    import cli
    nruns = nruns or 200
    bad = 0
    report = {}
    for pid in cli.CLAIMED:
        if not os.path.exists(os.path.join(HERE, 'props', pid.lower() + '.py')):
            continue
        t0 = time.time()
        a = _digests(pid, seed, nruns, procs, 0, 7)
        b = _digests(pid, seed, nruns, 3, 4242, 11)
        diff = sorted(int(k) for k in a if a[k] != b.get(k))
        report[pid] = {'runs': nruns, 'mismatches': len(diff)}
        log('determinism %s: %d runs twice (16 procs/hashseed 0 vs 3 procs/hashseed 4242): %d mismatches %s (%.1fs)'
            % (pid, nruns, len(diff), diff[:10], time.time() - t0))
        bad += len(diff)
    os.makedirs(os.path.join(VERIF, 'evidence'), exist_ok=True)
    with open(os.path.join(VERIF, 'evidence', 'selftest_determinism.json'), 'w') as f:
        json.dump(report, f, indent=1, sort_keys=True)
    return 2 if bad else 0


def seeds(nseeds, procs):
    """No alarm on the unchanged tree for many VERIF_SEED values: quick tier of every check, nseeds seeds."""
    import cli
    nseeds = nseeds or 10
    bad = 0
    report = {}
    for pid in cli.CLAIMED:
        t0 = time.time()
        fails = []
        for sd in range(100, 100 + nseeds):
            envv = dict(os.environ, VERIF_SEED=str(sd), VERIF_EVIDENCE_DIR=os.path.join(VERIF, 'evidence', '_seeds_tmp'),
                        VERIF_REPLAY_DIR=os.path.join(VERIF, 'replays'))
            out = subprocess.run([os.path.join(VERIF, 'check'), pid, 'quick'], env=envv, capture_output=True, text=True)
            if out.returncode != 0:
                fails.append((sd, out.returncode, [l for l in out.stdout.splitlines() if l.startswith(('violation', 'VIOLATION', 'HARNESS'))][:4]))
        report[pid] = {'seeds': nseeds, 'non_zero_exits': len(fails)}
        log('seeds %s: %d seeds, %d non-zero exits %s (%.0fs)' % (pid, nseeds, len(fails), fails[:3], time.time() - t0))
        bad += len(fails)
    import shutil
    shutil.rmtree(os.path.join(VERIF, 'evidence', '_seeds_tmp'), ignore_errors=True)
    with open(os.path.join(VERIF, 'evidence', 'selftest_seeds.json'), 'w') as f:
        json.dump(report, f, indent=1, sort_keys=True)
    return 2 if bad else 0


def main(what, nruns, procs, seed):
    rc = 0
    if what in ('env',):
        return env()
    if what == 'seeds':
        return seeds(nruns, procs)
    if what in ('determinism', 'all'):
        rc = max(rc, determinism(nruns, procs, seed))
    if what in ('fidelity', 'all'):
        import fidelity
        rc = max(rc, fidelity.main(nruns, seed))
    return rc
