"""Run every quick check against a sub-agent's behaviour-preserving refactor: all must stay silent.

    /venv/bin/python simverif/refactor_eval.py <worktree> <id> [PROPERTY ...]
"""
import json
import os
import shutil
import subprocess
import sys
import time

VERIF = os.path.dirname(os.path.dirname(os.path.abspath(__file__)))
sys.path.insert(0, os.path.dirname(os.path.abspath(__file__)))
import seeded_eval  # noqa: E402


def main():
    wt, rid = sys.argv[1], sys.argv[2]
    props = sys.argv[3:] or ['C06', 'C07', 'C08', 'C15', 'C18', 'C20']
    rd = os.path.join(wt, 'REFACTOR')
    patch = os.path.join(rd, 'patch.diff')
    cur = subprocess.run(['git', '-C', wt, 'diff', '--', 'emd'], capture_output=True, text=True).stdout
    rec = {'id': rid, 'patch_matches_worktree': cur.strip() == open(patch).read().strip(),
           'changed_lines': sum(1 for l in cur.splitlines() if l[:1] in '+-' and l[:3] not in ('+++', '---'))}
    rec['baseline_tests_missing'] = seeded_eval.suite(wt)
    rec['checks'] = {}
    scratch = os.path.join(wt, '.verif-out')
    for pid in props:
        env = dict(os.environ, VERIF_REPO=wt, VERIF_EVIDENCE_DIR=os.path.join(scratch, 'evidence'),
                   VERIF_REPLAY_DIR=os.path.join(scratch, 'replays'))
        t0 = time.time()
        c = subprocess.run([os.path.join(VERIF, 'check'), pid, 'quick'], env=env, capture_output=True, text=True)
        rec['checks'][pid] = {'exit': c.returncode, 'wall_s': round(time.time() - t0, 1),
                              'lines': [l for l in c.stdout.splitlines() if l.startswith(('violation', '  ', 'HARNESS'))][:10]}
        print('%s %s exit=%d %.0fs' % (rid, pid, c.returncode, time.time() - t0), flush=True)
        for l in rec['checks'][pid]['lines'][:6]:
            print('   ' + l[:300])
    shutil.rmtree(scratch, ignore_errors=True)
    out = os.path.join(VERIF, 'refactors', rid)
    os.makedirs(out, exist_ok=True)
    shutil.copy(patch, os.path.join(out, 'patch.diff'))
    try:
        rec['notes'] = json.load(open(os.path.join(rd, 'notes.json')))
    except Exception:
        rec['notes'] = None
    json.dump(rec, open(os.path.join(out, 'result.json'), 'w'), indent=1)
    silent = all(v['exit'] == 0 for v in rec['checks'].values())
    print('%s: tests missing %s; %s' % (rid, rec['baseline_tests_missing'], 'all checks silent' if silent else 'ALARM(S)'))
    return 0 if silent else 1


if __name__ == '__main__':
    sys.exit(main())
