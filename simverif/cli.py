"""Batch runner, protocol lines, evidence, known findings.

Usage (through /verif/check):
    check <ID> [quick|thorough] [--runs N] [--procs P] [--replay FILE]
    check selftest {determinism|fidelity|all} [--runs N]
Exit: 0 held on everything explored (KNOWN-FINDING lines allowed); 1 VIOLATION; 2 harness error.
"""
import argparse
import collections
import concurrent.futures as cf
import hashlib
import json
import multiprocessing
import os
import sys
import time

HERE = os.path.dirname(os.path.abspath(__file__))
VERIF = os.path.dirname(HERE)
if HERE not in sys.path:
    sys.path.insert(0, HERE)

import engine  # noqa: E402

CLAIMED = ['C06', 'C07', 'C08', 'C15', 'C18', 'C20']
MAX_DISTINCT_REPORTED = 12


def log(*a):
    print(*a, flush=True)


def load_known():
    path = os.environ.get('VERIF_KNOWN_FINDINGS') or os.path.join(VERIF, 'known_findings.json')
    if not os.path.exists(path):
        return []
    with open(path) as f:
        return json.load(f)['findings']


def match_known(known, pid, key):
    for k in known:
        if k.get('status') == 'open' and k['property'] == pid and k['class'] == key[0] \
                and k['signature'] == key[1]:
            return k
    return None


def make_executor(procs):
    ctx = multiprocessing.get_context('fork')
    return cf.ProcessPoolExecutor(max_workers=procs, mp_context=ctx)


def run_batch(pid, seed, tier, nruns, procs, budget_s, chunk=None, keep_first=3):
    """Run indices 0..nruns-1 (the explored set is a function of seed and tier only)."""
    t0 = time.time()
    if chunk is None:
        chunk = max(1, min(50, nruns // (procs * 8) or 1))
    chunks = [list(range(i, min(nruns, i + chunk))) for i in range(0, nruns, chunk)]
    results = []
    stopped_early = False
    with make_executor(procs) as ex:
        pending = collections.deque()
        it = iter(chunks)
        timeout = 900

        def submit_next():
            try:
                c = next(it)
            except StopIteration:
                return False
            pending.append(ex.submit(engine.run_chunk, (pid, seed, c, tier, keep_first, timeout + 90 * len(c))))
            return True
        for _ in range(procs * 3):
            if not submit_next():
                break
        while pending:
            fut = pending.popleft()
            results.extend(fut.result(timeout=timeout + 90 * chunk + 120))
            # once a violation is known the verdict cannot change: do not spend more than a few minutes on the rest
            if not stopped_early and time.time() - t0 > 240 and any(r['viol'] for r in results):
                budget_s = 1e-9
            if budget_s and time.time() - t0 > budget_s:
                stopped_early = True
                for f in pending:
                    f.cancel()
                rest = [f for f in pending if not f.cancelled()]
                for f in rest:
                    results.extend(f.result(timeout=timeout + 90 * chunk + 120))
                break
            submit_next()
    results.sort(key=lambda r: r['i'])
    return results, stopped_early, time.time() - t0


def determinism_recheck(pid, seed, tier, results, procs, k):
    """Re-execute k runs in other processes, in reverse order, and compare event-log digests."""
    if not results:
        return {'runs': 0, 'mismatches': 0}
    step = max(1, len(results) // k)
    picks = [results[i] for i in range(0, len(results), step) if not results[i].get('timing_dependent')][:k]
    picks = list(reversed(picks))
    with make_executor(min(procs, max(1, len(picks)))) as ex:
        futs = [ex.submit(engine.run_chunk, (pid, seed, [r['i']], tier, 0, 600)) for r in picks]
        again = [f.result(timeout=700)[0] for f in futs]
    mism = []
    for a, b in zip(picks, again):
        ka = sorted((v['class'], v['signature']) for v in a['viol'])
        kb = sorted((v['class'], v['signature']) for v in b['viol'])
        if a['digest'] != b['digest'] or ka != kb or a['status'] != b['status']:
            mism.append(a['i'])
    return {'runs': len(picks), 'mismatches': len(mism), 'mismatch_runs': mism}


def write_replay(pid, seed, tier, key, src_run, sh, msg):
    rdir = os.environ.get('VERIF_REPLAY_DIR') or os.path.join(VERIF, 'replays')
    os.makedirs(rdir, exist_ok=True)
    h = hashlib.sha256(json.dumps([pid, key, sh['choices']]).encode()).hexdigest()[:10]
    path = os.path.join(rdir, '%s-%s-%s-%s.json' % (pid, seed, src_run, h))
    doc = {'property': pid, 'class': key[0], 'signature': key[1], 'message': msg,
           'seed': seed, 'tier': tier, 'run_index': src_run,
           'choices': sh['choices'], 'labels': sh.get('labels'),
           'expansion': sh.get('sample'), 'event_log_digest': sh.get('digest'),
           'schedule_and_fault_trace': sh.get('trace'),
           'minimised': {'from': sh.get('from_len'), 'to': sh.get('to_len'), 'runs': sh.get('runs'),
                         'confirmed_exact_replay': sh.get('ok')},
           'repo_digest': engine.repo_digest(),
           'replay_cmd': './check %s --replay %s' % (pid, os.path.relpath(path, VERIF))}
    with open(path, 'w') as f:
        json.dump(doc, f, indent=1, sort_keys=True)
    return path


def do_replay(pid, path):
    with open(path) as f:
        doc = json.load(f)
    key = (doc['class'], doc['signature'])
    with make_executor(1) as ex:
        r = ex.submit(_replay_task, (pid, doc.get('tier', 'quick'), doc['choices'])).result(timeout=900)
    hit = any((v['class'], v['signature']) == key for v in r['viol'])
    log('replay: status=%s digest=%s (recorded %s) violations=%s' %
        (r['status'], r['digest'], doc.get('event_log_digest'),
         [(v['class'], v['signature']) for v in r['viol']]))
    if r['status'] == 'harness_error':
        log(r['err'])
        return 2
    if hit:
        same = (r['digest'] == doc.get('event_log_digest'))
        for v in r['viol']:
            if (v['class'], v['signature']) == key:
                log('  ' + v['message'])
        log('replay reproduces the violation%s' % (' with identical event log' if same else
                                                   ' (event log differs: code changed since recording)'))
        log('VIOLATION property=%s replay=%s' % (pid, path))
        return 1
    log('replay does NOT reproduce %s on the current tree' % (key,))
    return 0


def _replay_task(args):
    pid, tier, choices = args
    return engine.run_one(pid, 0, -1, tier, replay=choices, keep_choices=True)


def check(pid, tier, nruns, procs, seed):
    t_start = time.time()
    mod = engine.load_prop(pid)
    if nruns is None:
        nruns = mod.QUICK_RUNS if tier == 'quick' else mod.THOROUGH_RUNS
    budget = float(os.environ.get('VERIF_BUDGET_S', '0') or 0)
    results, stopped_early, wall = run_batch(pid, seed, tier, nruns, procs, budget)
    known = load_known()

    n = len(results)
    herr = [r for r in results if r['status'] == 'harness_error']
    excluded = [r for r in results if r['status'] == 'excluded']
    faults = collections.Counter()
    probes = collections.Counter()
    covs = set()
    simtime = 0.0
    nev = 0
    ff = 0
    for r in results:
        faults.update(r['faults'])
        probes.update(r['probes'])
        simtime += r['simtime']
        nev += r['nev']
        ff += 1 if r['fault_free'] else 0
        if r['nontrivial'] and r['status'] == 'ok':
            covs.add(r['cov'])
    byk = collections.OrderedDict()
    for r in results:
        for v in r['viol']:
            byk.setdefault((v['class'], v['signature']), []).append((r['i'], v['message']))

    exit_code = 0
    if herr:
        exit_code = 2
        log('HARNESS-ERROR property=%s runs=%s' % (pid, [r['i'] for r in herr][:10]))
        log(herr[0]['err'])
    if n and len(excluded) > mod.MAX_EXCLUDED_FRACTION * n:
        exit_code = 2
        log('HARNESS-ERROR property=%s: %d of %d runs excluded (vacuity guard)' % (pid, len(excluded), n))

    # violations: known findings vs new
    new_keys = []
    known_seen = []
    for key, occ in byk.items():
        k = match_known(known, pid, key)
        if k is not None:
            known_seen.append({'class': key[0], 'signature': key[1], 'runs': len(occ)})
            log('KNOWN-FINDING: property=%s %s [class=%s signature=%s; %d runs, e.g. run %d]' %
                (pid, k['what_fails'], key[0], key[1], len(occ), occ[0][0]))
        else:
            new_keys.append(key)
    replays = []
    if new_keys and exit_code != 2:
        todo = new_keys[:MAX_DISTINCT_REPORTED]
        byrun = {r['i']: r for r in results}
        with make_executor(min(procs, len(todo))) as ex:
            futs = []
            for key in todo:
                src = byk[key][0][0]
                futs.append((key, src, ex.submit(engine.shrink, (pid, tier, byrun[src]['choices'], key,
                                                                 mod.SHRINK_RUNS, mod.SHRINK_S))))
            for key, src, fut in futs:
                sh = fut.result(timeout=mod.SHRINK_S * 4 + 1800)
                msg = byk[key][0][1]
                if not sh.get('ok'):
                    # fall back to the unminimised sequence (still an exact replay of the run)
                    sh = {'choices': byrun[src]['choices'], 'labels': byrun[src].get('labels'),
                          'sample': byrun[src].get('sample'), 'digest': byrun[src]['digest'],
                          'trace': byrun[src].get('trace'),
                          'from_len': len(byrun[src]['choices']), 'to_len': len(byrun[src]['choices']),
                          'runs': sh.get('runs'), 'ok': False}
                else:
                    for v in sh['viol']:
                        if (v['class'], v['signature']) == key:
                            msg = v['message']
                path = write_replay(pid, seed, tier, key, src, sh, msg)
                replays.append(path)
                log('violation: class=%s signature=%s runs=%d first=run %d (choices %s -> %s)' %
                    (key[0], key[1], len(byk[key]), src, sh.get('from_len'), sh.get('to_len')))
                log('  ' + msg)
                log('VIOLATION property=%s replay=%s' % (pid, path))
        if len(new_keys) > len(todo):
            log('(%d further distinct violation signatures not minimised)' % (len(new_keys) - len(todo)))
        exit_code = 1

    det = {'runs': 0, 'mismatches': 0}
    if exit_code != 2:
        det = determinism_recheck(pid, seed, tier, results, procs, 8 if tier == 'quick' else 64)
        if det['mismatches']:
            log('HARNESS-ERROR property=%s: determinism recheck failed for runs %s' % (pid, det['mismatch_runs']))
            exit_code = 2

    fid = None
    ncases = getattr(mod, 'FIDELITY_CASES', {}).get(tier, 0)
    if ncases and exit_code != 2:
        import fidelity
        frc, fid = fidelity.run(ncases, seed, verbose=False)
        if frc != 0:
            log('HARNESS-ERROR property=%s: the pool model disagrees with the real multiprocessing pool' % pid)
            exit_code = 2

    wall_total = time.time() - t_start
    samples = [{'run': r['i'], 'description': r.get('sample'), 'choices': r.get('choices'),
                'event_log_digest': r['digest'], 'coverage_signature': r['cov']}
               for r in results if r.get('sample') is not None][:3]
    ev = {
        'property_id': pid, 'tier': tier, 'seed': int(seed), 'level': 'exploration',
        'coverage': {
            'evaluations': n,
            'distinct_nontrivial': len(covs),
            'rule': mod.RULE,
            'samples': samples or [{'note': 'no sample recorded'}],
            'traces_validated_against_impl': fid['traces_validated_against_impl'] if fid else 0,
            'pool_model_fidelity': ({k: v for k, v in fid.items() if k != 'cases'} if fid else None),
            'runs_per_hour': int(n / wall * 3600) if wall > 0 else 0,
            'seeds': 1, 'run_indices': [0, n - 1] if n else [],
            'sim_time_s': round(simtime, 3), 'events': nev,
            'faults_fired': dict(sorted(faults.items())),
            'probes': dict(sorted(probes.items())),
            'fault_free_runs': ff, 'fault_injecting_runs': n - ff,
            'excluded_runs': len(excluded), 'harness_errors': len(herr),
            'stopped_early_by_budget': stopped_early,
            'determinism_recheck': det,
            'components': mod.COMPONENTS,
            'known_findings_seen': known_seen,
            'new_violation_signatures': [list(k) for k in new_keys],
            'replays': [os.path.relpath(p, VERIF) for p in replays],
            'procs': procs, 'repo_digest': engine.repo_digest(),
        },
        'assumptions': mod.ASSUMPTIONS,
        'wall_s': round(wall_total, 2),
        'violations': len(new_keys),
    }
    extra = getattr(mod, 'extra_evidence', None)
    if extra is not None:
        ev['coverage'].update(extra(results))
    edir = os.environ.get('VERIF_EVIDENCE_DIR') or os.path.join(VERIF, 'evidence')
    os.makedirs(edir, exist_ok=True)
    with open(os.path.join(edir, pid + '.json'), 'w') as f:
        json.dump(ev, f, indent=1, sort_keys=True)
    if tier == 'thorough':
        # kept next to the per-property file, which the next quick run overwrites
        with open(os.path.join(edir, pid + '.thorough.json'), 'w') as f:
            json.dump(ev, f, indent=1, sort_keys=True)
    slow = sorted(results, key=lambda r: -r.get('wall', 0))[:3]
    log('slowest runs: %s; cpu total %.1fs' % ([(r['i'], r.get('wall')) for r in slow], sum(r.get('wall', 0) for r in results)))
    log('%s %s: runs=%d distinct_nontrivial=%d excluded=%d faults=%s known=%d new=%d det=%d/%d wall=%.1fs exit=%d' %
        (pid, tier, n, len(covs), len(excluded), dict(faults), len(known_seen), len(new_keys),
         det['runs'] - det['mismatches'], det['runs'], wall_total, exit_code))
    return exit_code


def main(argv):
    ap = argparse.ArgumentParser()
    ap.add_argument('what')
    ap.add_argument('tier', nargs='?', default=None)
    ap.add_argument('--runs', type=int, default=None)
    ap.add_argument('--procs', type=int, default=None)
    ap.add_argument('--replay', default=None)
    a = ap.parse_args(argv)
    procs = a.procs or int(os.environ.get('VERIF_PROCS', '0') or 0) or min(16, os.cpu_count() or 1)
    seed = int(os.environ.get('VERIF_SEED', '0') or 0)
    if a.what == 'selftest':
        import selftest
        return selftest.main(a.tier or 'all', a.runs, procs, seed)
    pid = a.what.upper()
    if pid not in CLAIMED:
        log('unknown or unclaimed property %r (claimed: %s)' % (pid, CLAIMED))
        return 2
    if a.replay:
        return do_replay(pid, a.replay)
    tier = a.tier or os.environ.get('VERIF_TIER') or 'quick'
    if tier not in ('quick', 'thorough'):
        log('tier must be quick or thorough')
        return 2
    return check(pid, tier, a.runs, procs, seed)


if __name__ == '__main__':
    import shutil
    import tempfile
    # one scratch directory per invocation; batch workers create their per-process disks underneath it and the
    # parent removes it whatever happens to them
    _shm = '/dev/shm' if os.path.isdir('/dev/shm') and os.access('/dev/shm', os.W_OK) else None
    _scratch = tempfile.mkdtemp(prefix='simverif-', dir=_shm)      # RAM-backed when available
    os.environ['SIMVERIF_SCRATCH'] = _scratch
    try:
        rc = main(sys.argv[1:])
    except SystemExit:
        raise
    except BaseException:
        import traceback
        traceback.print_exc()
        print('HARNESS-ERROR: unhandled exception in the runner', flush=True)
        rc = 2
    finally:
        shutil.rmtree(_scratch, ignore_errors=True)
    sys.exit(rc)
