"""The simulated world: clock, event log, digests, counters, violations."""
import hashlib
import json
from collections import Counter

import numpy as np

from chooser import mix

PARENT_PID = 1000


class HarnessError(Exception):
    """Something is wrong with the harness or the run is vacuous: never a pass, never a violation."""


class ExcludedRun(Exception):
    """Workload falls outside the class the property speaks about (counted, reported)."""


class SimEscape(BaseException):
    """Code under test tried to leave the simulator (real fork / process creation)."""


class InjectedFault(Exception):
    """Raised by the simulator at a cooperative fault point."""


def adigest(a):
    """Digest of an array's dtype, shape and bytes."""
    a = np.ascontiguousarray(a)
    h = hashlib.sha256()
    h.update(str(a.dtype).encode())
    h.update(repr(a.shape).encode())
    h.update(a.tobytes())
    return h.hexdigest()[:16]


def canon(x):
    """Canonical, JSON-able, hash-seed independent rendering of a value for the event log."""
    if isinstance(x, np.ndarray):
        return 'nd:' + adigest(x)
    if isinstance(x, (np.floating, float)):
        return repr(float(x))
    if isinstance(x, (np.integer,)):
        return int(x)
    if isinstance(x, (np.bool_,)):
        return bool(x)
    if isinstance(x, dict):
        return {str(k): canon(v) for k, v in sorted(x.items(), key=lambda kv: str(kv[0]))}
    if isinstance(x, (list, tuple)):
        return [canon(v) for v in x]
    if isinstance(x, (set, frozenset)):
        return sorted(canon(v) for v in x)
    if x is None or isinstance(x, (bool, int, str)):
        return x
    if callable(x):
        return 'fn:' + getattr(x, '__qualname__', type(x).__name__)
    return 'obj:' + type(x).__name__


class Violation:
    def __init__(self, cls, signature, message, detail=None):
        self.cls = cls
        self.signature = signature
        self.message = message
        self.detail = detail

    def key(self):
        return (self.cls, self.signature)

    def as_dict(self):
        return {'class': self.cls, 'signature': self.signature, 'message': self.message,
                'detail': canon(self.detail)}


class World:
    def __init__(self, chooser, prop='', tier='quick'):
        self.ch = chooser
        self.prop = prop
        self.tier = tier
        self.now = 0.0            # simulated seconds
        self.clock_reads = 0
        self.seq = 0              # global event sequence number
        self.events = []
        self.faults = Counter()   # fault kinds that actually fired
        self.probes = Counter()   # "this rare condition was hit"
        self.violations = []
        self.cur_pid = PARENT_PID
        self.cur_proc = None      # SimProcess while a task runs
        self.cur_task = None
        self.next_ident = 1       # multiprocessing's global process counter
        self.poolcfg = {}
        self.pools = []
        self.batches = []         # pool batch records (history for oracles)
        self.stage_trace = []     # stage-entry records (C06/C07/C08 oracles)
        self.stage_fault = None   # (k) -> raise at k-th stage entry
        self.stage_entries = 0
        self.entropy_base = None
        self.entropy_n = 0
        self.cov = []             # coverage signature parts
        self.sample = {}          # human readable description of the run
        self.fault_free = True
        self.disk = None
        self.stdout = None

    # -- log ----------------------------------------------------------------
    def log(self, _kind, **kw):
        self.seq += 1
        self.events.append((self.seq, round(self.now, 6), self.cur_pid, _kind, canon(kw)))

    def digest(self):
        h = hashlib.sha256()
        for e in self.events:
            h.update(json.dumps(e, sort_keys=True).encode())
        return h.hexdigest()[:24]

    # -- violations / faults ------------------------------------------------
    def violation(self, cls, signature, message, detail=None):
        v = Violation(cls, signature, message, detail)
        if any(o.key() == v.key() for o in self.violations):
            return v          # one report per (class, signature) and run
        self.violations.append(v)
        self.log('violation', cls=cls, signature=signature)
        return v

    def fault(self, kind, **kw):
        self.faults[kind] += 1
        self.fault_free = False
        self.log('fault', fault=kind, **kw)

    def probe(self, name, n=1):
        self.probes[name] += n

    # -- entropy ("the OS") -------------------------------------------------
    def entropy(self, nbits):
        """Fresh entropy: never repeats within a run, replayable."""
        if self.entropy_base is None:
            self.entropy_base = self.ch.pick('entropy.base', 1 << 30)
        self.entropy_n += 1
        self.log('entropy', n=self.entropy_n, bits=nbits)
        v = 0
        k = 0
        while v.bit_length() < nbits:
            v = (v << 64) | mix('entropy', self.entropy_base, self.entropy_n, k)
            k += 1
        return v & ((1 << nbits) - 1)
