"""Seam installation: everything nondeterministic the properties can touch is routed to the World.

No line of /repo is changed: every seam is taken by rebinding a module attribute.
install() is called once per OS process (before emd is imported); begin_run()/end_run()
bracket every simulated run and put the process back into a pristine state.
"""
import copy as _copy
import errno
import functools
import inspect
import io
import logging
import os
import random
import sys
import time
import warnings

import numpy as np

import simmp
import world as W

_installed = [False]
_orig = {}
emd = None


def repo_path():
    return os.environ.get('VERIF_REPO', '/repo')


# ----------------------------------------------------------------------------------------------
# clock


def _clock():
    w = simmp.CURRENT[0]
    return None if w is None else w


def _mk_time(name):
    real = getattr(time, name)

    def fake(*a):
        w = simmp.CURRENT[0]
        if w is None:
            return real(*a)
        # strictly increasing: no two clock reads anywhere in a run return the same value (as on a real machine
        # at nanosecond resolution), while whole seconds only advance with simulated work
        w.clock_reads += 1
        ns = int((1.7e9 + w.now) * 1e9) + 137 * w.clock_reads
        if name.endswith('_ns'):
            return ns
        return ns / 1e9
    fake.__name__ = name
    fake._simverif_seam = True
    return real, fake


# ----------------------------------------------------------------------------------------------
# simulated disk
#
# Files live in a real scratch directory that belongs to this OS process (removed at exit; emptied at the start
# of every run), so that whatever the code under test does with paths - os.stat, os.replace, pathlib, temporary
# files - works natively.  The simulator owns the `open` seam: every file opened through it is a proxy whose
# open / write / flush / close / read operations can fail on command (ENOSPC, EIO, EACCES); a failing write
# leaves a drawn prefix of its data in the file (torn write), a failing close loses the buffered tail.

_DISK_BASE = [None]


def disk_base():
    if _DISK_BASE[0] is None:
        import atexit
        import shutil
        import tempfile
        parent = os.environ.get('SIMVERIF_SCRATCH')
        if parent and os.path.isdir(parent):
            d = os.path.realpath(tempfile.mkdtemp(prefix='disk-', dir=parent))     # removed by the runner
        else:
            d = os.path.realpath(tempfile.mkdtemp(prefix='simverif-disk-'))
        _DISK_BASE[0] = d
        pid = _orig.get('getpid', os.getpid)()

        def cleanup():
            if _orig.get('getpid', os.getpid)() == pid:
                shutil.rmtree(d, ignore_errors=True)
        atexit.register(cleanup)
    return _DISK_BASE[0]


class FaultyFile:
    """Proxy around a real text file; consults the disk's fault plan on every operation."""
    _simverif_seam = True

    def __init__(self, disk, real, name, mode):
        self._disk, self._f, self._name, self._mode = disk, real, name, mode
        self._writable = any(c in mode for c in 'wax+')

    def _fault(self, op):
        return self._disk.maybe_fault(op, self._name)

    def write(self, s):
        e = self._fault('write')
        if e is not None:
            k = self._disk.w.ch.pick('fault.torn', len(s) + 1) if s else 0
            try:
                self._f.write(s[:k])
                self._f.flush()
            except Exception:
                pass
            self._disk.w.probe('torn_file_left')
            raise e
        return self._f.write(s)

    def writelines(self, lines):
        for ln in lines:
            self.write(ln)

    def read(self, *a):
        e = self._fault('read')
        if e is not None:
            raise e
        return self._f.read(*a)

    def readline(self, *a):
        e = self._fault('read')
        if e is not None:
            raise e
        return self._f.readline(*a)

    def flush(self):
        if self._f.closed:
            return
        if self._writable:
            e = self._fault('flush')
            if e is not None:
                raise e
        return self._f.flush()

    def close(self):
        if self._f.closed:
            return
        try:
            if self._writable:
                e = self._fault('close')
                if e is not None:
                    # the buffered tail never reaches the file
                    try:
                        self._f.detach().close() if hasattr(self._f, 'detach') and False else None
                    except Exception:
                        pass
                    self._lose_tail()
                    raise e
        finally:
            try:
                self._f.close()
            except Exception:
                pass
            self._disk.w.log('disk.close', path=self._name)

    def _lose_tail(self):
        # drop whatever is still buffered: truncate the python-level buffer by closing the raw descriptor first
        try:
            raw = self._f.buffer.raw
            os.close(raw.fileno())
        except Exception:
            pass

    def __enter__(self):
        return self

    def __exit__(self, *a):
        self.close()
        return False

    def __iter__(self):
        return self

    def __next__(self):
        line = self.readline()
        if not line:
            raise StopIteration
        return line

    @property
    def closed(self):
        return self._f.closed

    @property
    def name(self):
        return self._f.name

    def __getattr__(self, k):
        return getattr(self._f, k)


class SimDisk:
    ERRS = [(errno.ENOSPC, 'No space left on device'), (errno.EIO, 'Input/output error'),
            (errno.EACCES, 'Permission denied')]

    def __init__(self, w):
        self.w = w
        self.root = os.path.join(disk_base(), 'run')
        self.plan = None      # None: no faults; else {'at': k, 'err': idx}
        self.opcount = 0

    def reset(self):
        import shutil
        shutil.rmtree(self.root, ignore_errors=True)
        os.makedirs(self.root)

    def path(self, name):
        return os.path.join(self.root, name)

    def owns(self, file):
        try:
            return os.path.abspath(os.fspath(file)).startswith(self.root + os.sep)
        except TypeError:
            return False

    def arm(self, at, err, sticky=False):
        """Fail the at-th file operation from now on; sticky: and every operation after it (the disk stays full)."""
        self.plan = {'at': at, 'err': err, 'sticky': sticky}
        self.opcount = 0

    def disarm(self):
        self.plan = None

    def maybe_fault(self, op, name):
        self.w.log('disk.op', op=op, path=name)
        if self.plan is None:
            return None
        k = self.opcount
        self.opcount += 1
        if k == self.plan['at'] or (self.plan.get('sticky') and k > self.plan['at']):
            code, msg = self.ERRS[self.plan['err'] % len(self.ERRS)]
            self.w.fault('io_error', op=op, path=name, errno=code)
            self.w.probe('io_error_at_' + op)
            e = OSError(code, msg, name)
            e._sim_transported = True      # injected on purpose: not a harness bug
            return e
        return None

    def open(self, file, mode='r', *a, **kw):
        name = os.path.basename(os.fspath(file))
        e = self.maybe_fault('open', name)
        if e is not None:
            raise e
        try:
            real = _orig['open'](file, mode, *a, **kw)
        except OSError as err:
            err._sim_transported = True
            raise
        if 'b' in mode:
            return real
        return FaultyFile(self, real, name, mode)


def _sim_open(file, mode='r', *a, **kw):
    w = simmp.CURRENT[0]
    if w is None or w.disk is None or not isinstance(file, (str, os.PathLike)) or not w.disk.owns(file):
        return _orig['open'](file, mode, *a, **kw)
    return w.disk.open(file, mode, *a, **kw)


_sim_open._simverif_seam = True


# ----------------------------------------------------------------------------------------------
# stage wrappers

STAGES = ['get_next_imf', 'interp_envelope', 'get_padded_extrema', 'sift', '_sift_with_noise',
          'get_next_imf_mask', 'get_mask_freqs', 'ensemble_sift', 'complete_ensemble_sift',
          'mask_sift', 'sift_second_layer', 'mask_sift_second_layer',
          'sd_stop', 'rilling_stop', 'fixed_stop', '_energy_difference', '_find_extrema',
          'compute_parabolic_extrema']
LIGHT_STAGES = set(['sd_stop', 'rilling_stop', 'fixed_stop', '_energy_difference', '_find_extrema',
                    'compute_parabolic_extrema'])     # recorded without array snapshots
_stage_orig = {}
_stage_sig = {}


def _bind(name, args, kwargs):
    """Bound arguments of a stage call (defaults applied); None if the call itself is malformed."""
    sig = _stage_sig.get(name)
    try:
        ba = sig.bind(*args, **kwargs)
    except TypeError:
        return None
    ba.apply_defaults()
    out = {}
    for k, v in ba.arguments.items():
        # option containers are snapshotted: the caller may edit the very same dictionary after the call
        if isinstance(v, (dict, list, tuple)) or hasattr(v, 'keys'):
            try:
                v = _copy.deepcopy(dict(v) if hasattr(v, 'keys') and not isinstance(v, dict) else v)
            except Exception:
                pass
        out[k] = v
    return out


def _wrap_stage(name, orig):
    try:
        _stage_sig[name] = inspect.signature(orig)
    except (TypeError, ValueError):
        _stage_sig[name] = None

    @functools.wraps(orig)
    def stage(*args, **kwargs):
        w = simmp.CURRENT[0]
        if w is None or not getattr(w, 'trace_on', True):
            return orig(*args, **kwargs)
        depth = w.stage_depth
        rec = {'stage': name, 'pid': w.cur_pid, 'task': w.cur_task, 'seq': w.seq,
               'parent': depth[-1] if depth else None, 'args': args, 'kwargs': kwargs,
               'level': _console_level()}
        rec['bound'] = _bind(name, args, kwargs) if _stage_sig.get(name) is not None else None
        rec['id'] = len(w.stage_trace)
        light = name in LIGHT_STAGES
        rec['x'] = args[0].copy() if (not light and args and isinstance(args[0], np.ndarray)) else None
        w.stage_trace.append(rec)
        if light:
            rec['args'] = rec['kwargs'] = None
            depth.append(rec['id'])
            try:
                return orig(*args, **kwargs)
            finally:
                depth.pop()
        w.log('stage', stage=name, task=w.cur_task,
              x=args[0] if args and isinstance(args[0], np.ndarray) else None)
        w.stage_entries += 1
        if w.stage_fault is not None and w.stage_entries == w.stage_fault:
            w.fault('stage_raise', stage=name, at=w.stage_entries)
            w.stage_fault = None
            rec['faulted'] = True
            raise W.InjectedFault('injected at stage entry %d (%s)' % (w.stage_entries, name))
        depth.append(rec['id'])
        try:
            out = orig(*args, **kwargs)
            rec['out'] = _snap(out)
            return out
        except BaseException as e:
            rec['exc'] = e
            raise
        finally:
            rec['seq_out'] = w.seq
            depth.pop()
    stage._simverif_seam = True
    return stage


class _ModProxy:
    """Stands for a module alias inside emd.sift (np, interp): everything passes through, selected callables
    are observed (which routine was called, with which options, underneath which stage entry)."""
    _simverif_seam = True

    def __init__(self, real, watched, label):
        object.__setattr__(self, '_real', real)
        object.__setattr__(self, '_label', label)
        for name in watched:
            object.__setattr__(self, name, self._watch(name, getattr(real, name)))

    def _watch(self, name, fn):
        label = self._label

        @functools.wraps(fn)
        def watched(*args, **kwargs):
            w = simmp.CURRENT[0]
            if w is not None and getattr(w, 'trace_on', True):
                depth = w.stage_depth
                rec = {'lib': label, 'fn': name, 'parent': depth[-1] if depth else None}
                if name == 'pad':
                    rec['len'] = len(args[0]) if args else None
                    rec['pad_width'] = args[1] if len(args) > 1 else kwargs.get('pad_width')
                    rec['mode'] = args[2] if len(args) > 2 else kwargs.get('mode', 'constant')
                    rec['kwargs'] = {k: v for k, v in kwargs.items() if k not in ('mode', 'pad_width')}
                w.lib_calls.append(rec)
            return fn(*args, **kwargs)
        return watched

    def __getattr__(self, name):
        return getattr(object.__getattribute__(self, '_real'), name)


def _snap(out):
    if isinstance(out, np.ndarray):
        return out.copy()
    if isinstance(out, tuple):
        return tuple(_snap(o) for o in out)
    return out


def _console_level():
    for h in logging.getLogger('emd').handlers:
        if h.get_name() == 'console':
            return h.level
    return None


# ----------------------------------------------------------------------------------------------
# install


def _escape(what):
    def f(*a, **k):
        raise W.SimEscape(what)
    f._simverif_seam = True
    return f


def install():
    """Once per OS process.  Imports emd from the repository under test."""
    global emd
    if _installed[0]:
        return emd
    import multiprocessing
    import multiprocessing.pool
    import multiprocessing.util
    import concurrent.futures
    import builtins
    import subprocess

    warnings.simplefilter('ignore')
    np.seterr(all='ignore')
    simmp._REAL['multiprocessing'] = multiprocessing
    _orig['open'] = builtins.open
    _orig['stdout'] = sys.stdout

    # clock
    for name in ('time', 'time_ns', 'monotonic', 'monotonic_ns', 'perf_counter', 'perf_counter_ns'):
        real, fake = _mk_time(name)
        _orig['time.' + name] = real
        setattr(time, name, fake)

    # sleeping advances the simulated clock instead of the real one
    _orig['time.sleep'] = time.sleep

    def sim_sleep(secs):
        w = simmp.CURRENT[0]
        if w is None:
            return _orig['time.sleep'](secs)
        w.now += max(0.0, float(secs))
    sim_sleep._simverif_seam = True
    time.sleep = sim_sleep

    # process identity / creation
    _orig['getpid'] = os.getpid
    os.getpid = lambda: (simmp.CURRENT[0].cur_pid if simmp.CURRENT[0] is not None else _orig['getpid']())
    _orig['fork'] = os.fork
    os.fork = _escape('os.fork')
    if hasattr(os, 'posix_spawn'):
        os.posix_spawn = _escape('os.posix_spawn')
    multiprocessing.util.spawnv_passfds = _escape('spawnv_passfds')
    subprocess._fork_exec = _escape('subprocess fork_exec')
    _orig['pool.Pool'] = multiprocessing.pool.Pool
    multiprocessing.pool.Pool = simmp.SimPool
    multiprocessing.Pool = simmp.SimMP().Pool
    _orig['mp.current_process'] = multiprocessing.current_process
    _orig['mp.get_context'] = multiprocessing.get_context
    multiprocessing.get_context = simmp.SimMP().get_context
    concurrent.futures.ProcessPoolExecutor = simmp.SimExecutor
    import concurrent.futures.process as cfp
    cfp.ProcessPoolExecutor = simmp.SimExecutor

    # entropy
    import numpy.random.bit_generator as bg
    _orig['randbits'] = bg.randbits

    def randbits(n):
        w = simmp.CURRENT[0]
        return _orig['randbits'](n) if w is None else w.entropy(n)
    bg.randbits = randbits
    _orig['np.seed'] = np.random.seed

    def np_seed(seed=None):
        w = simmp.CURRENT[0]
        if seed is None and w is not None:
            seed = w.entropy(32)
        return _orig['np.seed'](seed)
    np.random.seed = np_seed
    _orig['py.seed'] = random.seed

    def py_seed(a=None, version=2):
        w = simmp.CURRENT[0]
        if a is None and w is not None:
            a = w.entropy(64)
        return _orig['py.seed'](a, version)
    random.seed = py_seed
    _orig['urandom'] = os.urandom

    def urandom(n):
        w = simmp.CURRENT[0]
        if w is None:
            return _orig['urandom'](n)
        return w.entropy(8 * n).to_bytes(n, 'big') if n else b''
    os.urandom = urandom

    # log file sink
    logging.open = _sim_open      # FileHandler.__init__ binds the module-level name `open`

    # the code under test
    rp = repo_path()
    if rp in sys.path:
        sys.path.remove(rp)
    sys.path.insert(0, rp)
    sys.stdout = io.StringIO()
    try:
        import emd as _emd
    finally:
        sys.stdout = _orig['stdout']
    emd = _emd
    got = os.path.realpath(os.path.dirname(emd.__file__))
    want = os.path.realpath(os.path.join(rp, 'emd'))
    if got != want:
        raise W.HarnessError('emd imported from %s, expected %s' % (got, want))
    simmp.remember_pristine()

    S = emd.sift
    S.mp = simmp.SimMP()
    for alt in ('multiprocessing',):
        if hasattr(S, alt):
            setattr(S, alt, simmp.SimMP())
    for alt in ('Pool',):
        if hasattr(S, alt):
            setattr(S, alt, simmp.SimMP().Pool)
    for alt in ('ProcessPoolExecutor',):
        if hasattr(S, alt):
            setattr(S, alt, simmp.SimExecutor)
    S.open = _sim_open
    if getattr(S, 'np', None) is np:
        S.np = _ModProxy(np, ['pad'], 'np')
    import scipy.interpolate as _si
    if getattr(S, 'interp', None) is _si:
        S.interp = _ModProxy(_si, ['splrep', 'splev', 'PchipInterpolator', 'pchip'], 'interp')
    for name in STAGES:
        if hasattr(S, name):
            _stage_orig[name] = getattr(S, name)
            setattr(S, name, _wrap_stage(name, _stage_orig[name]))
    # defaults captured at def time (sift_second_layer(sift_func=sift)) keep the unwrapped function;
    # that is fine: they are called in the parent and their inner stages are wrapped.
    _reset_logger()
    simmp.remember_pristine_logging()
    _installed[0] = True
    return emd


def stage_original(name):
    return _stage_orig[name]


# ----------------------------------------------------------------------------------------------
# per-run reset


def _reset_logger():
    lg = logging.getLogger('emd')
    for h in list(lg.handlers):
        lg.removeHandler(h)
        try:
            h.close()
        except Exception:
            pass
    lg.addHandler(logging.NullHandler())
    lg.setLevel(logging.NOTSET)
    lg.propagate = True
    lg.disabled = False
    logging.disable(logging.NOTSET)
    for name, obj in list(logging.root.manager.loggerDict.items()):
        if (name == 'emd' or name.startswith('emd.')) and isinstance(obj, logging.Logger):
            obj.disabled = False
            if name != 'emd':
                obj.setLevel(logging.NOTSET)
                obj.propagate = True
    logging.root.setLevel(logging.WARNING)
    for h in list(logging.root.handlers):
        logging.root.removeHandler(h)
    logging.lastResort = None    # nothing ever reaches the real stderr


class _Sink(io.StringIO):
    """Console sink: captures, optionally fails."""

    def __init__(self, w):
        super().__init__()
        self.w = w
        self.fail_at = None
        self.nwrites = 0

    def write(self, s):
        self.nwrites += 1
        if self.fail_at is not None and self.nwrites >= self.fail_at:
            self.w.fault('log_sink_error')
            e = OSError(errno.EIO, 'Input/output error (log sink)')
            e._sim_transported = True
            raise e
        return super().write(s)


def begin_run(w):
    install()
    simmp.CURRENT[0] = w
    w.stage_depth = []
    w.lib_calls = []
    w.trace_on = True
    w.disk = SimDisk(w)
    w.disk.reset()
    os.chdir(w.disk.root)
    w.stdout = _Sink(w)
    sys.stdout = w.stdout
    logging.raiseExceptions = False
    _reset_logger()
    simmp.reset_globals_to_pristine()
    _orig['np.seed'](12345)
    _orig['py.seed'](12345)
    import multiprocessing
    w._real_proc = multiprocessing.process._current_process


def end_run(w):
    import multiprocessing
    multiprocessing.process._current_process = w._real_proc
    sys.stdout = _orig['stdout']
    _reset_logger()
    simmp.CURRENT[0] = None
