"""Signal and phase-series families.  Each is parametrised by (family, length, sub-seed) and uses a
local RandomState, so the global generator (part of the system under test) is never touched."""
import numpy as np


def _local_rs(seed):
    """A private RandomState.  Constructing one asks the OS for entropy before the explicit seed is
    applied; that request must not be served (and logged) by the simulated world."""
    import simmp
    w, simmp.CURRENT[0] = simmp.CURRENT[0], None
    try:
        return np.random.RandomState(seed)
    finally:
        simmp.CURRENT[0] = w


SIGNAL_FAMILIES = ['two_tone', 'three_tone_noise', 'chirp', 'am_tone', 'nonlinear', 'noise_burst',
                   'steps_tone']


def signal(family, n, sub):
    rs = _local_rs(1000003 * (sub + 1) + 17)
    t = np.arange(n) / float(n)
    f1 = rs.uniform(18, 30)
    f2 = rs.uniform(5, 9)
    f3 = rs.uniform(1.2, 2.5)
    ph = rs.uniform(0, 2 * np.pi, 3)
    if family == 'two_tone':
        x = np.sin(2 * np.pi * f1 * t + ph[0]) + 0.8 * np.sin(2 * np.pi * f2 * t + ph[1])
    elif family == 'three_tone_noise':
        x = (np.sin(2 * np.pi * f1 * t + ph[0]) + 0.7 * np.sin(2 * np.pi * f2 * t + ph[1])
             + 0.5 * np.sin(2 * np.pi * f3 * t + ph[2]) + 0.1 * rs.randn(n))
    elif family == 'chirp':
        x = np.sin(2 * np.pi * (f2 * t + 0.5 * (f1 - f2) * t ** 2) + ph[0]) \
            + 0.5 * np.sin(2 * np.pi * f3 * t + ph[1])
    elif family == 'am_tone':
        x = (1 + 0.5 * np.sin(2 * np.pi * f3 * t + ph[2])) * np.sin(2 * np.pi * f1 * t + ph[0]) \
            + 0.3 * np.sin(2 * np.pi * f2 * t)
    elif family == 'nonlinear':
        p = 2 * np.pi * f2 * t + ph[0]
        x = np.sin(p + 0.4 * np.sin(2 * p)) + 0.4 * np.sin(2 * np.pi * f1 * t + ph[1]) \
            + 0.05 * rs.randn(n)
    elif family == 'noise_burst':
        x = np.sin(2 * np.pi * f2 * t + ph[0]) + 0.3 * rs.randn(n) * (np.abs(t - 0.5) < 0.2) \
            + 0.6 * np.sin(2 * np.pi * f1 * t + ph[1])
    elif family == 'steps_tone':
        x = np.sin(2 * np.pi * f1 * t + ph[0]) + 0.5 * np.sign(np.sin(2 * np.pi * f3 * t + ph[1])) \
            + 0.6 * np.sin(2 * np.pi * f2 * t + ph[2]) + 0.02 * rs.randn(n)
    else:
        raise ValueError(family)
    x = x * rs.choice([0.1, 1.0, 1.0, 7.5]) + rs.choice([0.0, 0.0, 3.0, -0.5])
    return np.ascontiguousarray(x, dtype=float)


def draw_signal(ch, lo=96, hi=400, label='sig'):
    fam = ch.choice(label + '.family', SIGNAL_FAMILIES)
    n = lo + 8 * ch.pick(label + '.len', (hi - lo) // 8 + 1)
    sub = ch.pick(label + '.sub', 1000)
    return signal(fam, n, sub), {'family': fam, 'n': n, 'sub': sub}


PHASE_FAMILIES = ['clean', 'varying', 'noisy', 'reversing', 'short_cycles', 'edge_wraps']


def phase_series(family, n, sub):
    """Wrapped instantaneous phase in [0, 2pi)."""
    rs = _local_rs(7919 * (sub + 1) + 3)
    if family == 'clean':
        f = np.full(n, rs.uniform(0.03, 0.12))
    elif family == 'varying':
        f = rs.uniform(0.03, 0.1) * (1 + 0.5 * np.sin(2 * np.pi * rs.uniform(0.5, 3) * np.arange(n) / n))
    elif family == 'noisy':
        f = rs.uniform(0.04, 0.12) + 0.02 * rs.randn(n)
    elif family == 'reversing':
        f = rs.uniform(0.04, 0.12) + 0.06 * rs.randn(n)
    elif family == 'short_cycles':
        f = rs.uniform(0.2, 0.45) + 0.05 * rs.randn(n)
    elif family == 'edge_wraps':
        f = np.full(n, rs.uniform(0.05, 0.15))
    else:
        raise ValueError(family)
    p0 = rs.uniform(0, 2 * np.pi)
    if family == 'edge_wraps':
        p0 = rs.choice([0.0, 2 * np.pi - 1e-3, 2 * np.pi - f[0] * 2 * np.pi])
    ph = p0 + np.cumsum(2 * np.pi * f)
    ph = np.mod(ph, 2 * np.pi)
    return np.ascontiguousarray(ph, dtype=float)


def draw_phase(ch, lo=40, hi=400, label='phase'):
    fam = ch.choice(label + '.family', PHASE_FAMILIES)
    n = lo + 4 * ch.pick(label + '.len', (hi - lo) // 4 + 1)
    sub = ch.pick(label + '.sub', 1000)
    return phase_series(fam, n, sub), {'family': fam, 'n': n, 'sub': sub}
