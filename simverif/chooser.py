"""Decision stream: every choice of a simulated run goes through one Chooser.

Generation mode: values are drawn from random.Random(seed) and recorded.
Replay mode: recorded values are returned in order (labels are informative only);
an exhausted record yields 0, the plainest alternative.  A value that is out of
range for the request is reduced modulo n so that edited sequences (shrinking)
remain valid executions.
"""
import hashlib
import random


def mix(*parts):
    """Stable 64-bit mix of ints/strings (independent of PYTHONHASHSEED)."""
    h = hashlib.sha256(repr(parts).encode()).digest()
    return int.from_bytes(h[:8], 'big')


class Chooser:
    def __init__(self, seed=None, replay=None):
        self.replay = None if replay is None else list(replay)
        self.pos = 0
        self.record = []          # [(label, value)]
        self.rng = random.Random(seed) if replay is None else None
        self.overrun = 0

    # -- core ---------------------------------------------------------------
    def pick(self, label, n):
        """Return an int in [0, n). 0 is always the plainest alternative."""
        if n <= 0:
            raise ValueError('pick(%r, %r)' % (label, n))
        if self.replay is None:
            v = self.rng.randrange(n) if n > 1 else 0
        else:
            if self.pos < len(self.replay):
                v = int(self.replay[self.pos]) % n
            else:
                v = 0
                self.overrun += 1
            self.pos += 1
        self.record.append((label, v))
        return v

    def weighted(self, label, weights):
        """Index drawn according to integer weights; recorded value is the index."""
        n = len(weights)
        if self.replay is None:
            tot = sum(weights)
            r = self.rng.randrange(tot)
            v = 0
            for i, w in enumerate(weights):
                if r < w:
                    v = i
                    break
                r -= w
        else:
            if self.pos < len(self.replay):
                v = int(self.replay[self.pos]) % n
            else:
                v = 0
                self.overrun += 1
            self.pos += 1
        self.record.append((label, v))
        return v

    # -- conveniences -------------------------------------------------------
    def choice(self, label, seq):
        return seq[self.pick(label, len(seq))]

    def wchoice(self, label, seq, weights):
        return seq[self.weighted(label, weights)]

    def flag(self, label, num=1, den=2):
        """True with probability num/den; recorded 0 = False (plain)."""
        return self.weighted(label, [den - num, num]) == 1

    def intrange(self, label, lo, hi):
        """Inclusive integer range; lo is the plain value."""
        return lo + self.pick(label, hi - lo + 1)

    def values(self):
        return [v for _, v in self.record]
