"""Fidelity of the pool model: real multiprocessing.Pool executions vs. the simulator.

For each case a workload whose result depends on per-worker state (ensemble members drawing their noise
from the global NumPy generator inside the worker, as the pre-repair ensemble_sift did) is executed on
the REAL fork pool in a fresh interpreter, recording which worker ran which job.  The simulator is then
forced to use exactly that job->worker assignment from the same parent generator state, and every
member result must be bitwise identical.  This is the evidence that the fork model (state copied at
pool creation, evolving per worker, tasks atomic, FIFO per worker) is the real one.
"""
import hashlib
import json
import os
import subprocess
import sys
import time

HERE = os.path.dirname(os.path.abspath(__file__))
VERIF = os.path.dirname(HERE)
if HERE not in sys.path:
    sys.path.insert(0, HERE)


def cases(n, seed):
    import random
    rng = random.Random(1000 + seed)
    out = []
    for k in range(n):
        out.append({'k': k, 'family': rng.choice(['two_tone', 'three_tone_noise', 'chirp', 'am_tone']),
                    'n': rng.choice([96, 128, 200]), 'sub': rng.randrange(1000),
                    'nens': rng.randint(2, 7), 'nproc': rng.randint(1, 4),
                    'mode': rng.choice(['single', 'flip']), 'seed': rng.randrange(100000),
                    'advance': rng.choice([0, 0, 13, 500]), 'chunksize': rng.choice([None, None, 1, 2])})
    return out


def _dig(a):
    import numpy as np
    a = np.ascontiguousarray(a)
    return hashlib.sha256(str(a.shape).encode() + a.tobytes()).hexdigest()[:20]


def fid_member(X, scale, i):
    """Harness-owned member job (pure NumPy, independent of the code under test): draws from the process-global
    generator, so its result depends on the per-worker generator state exactly as the pre-repair ensemble did."""
    import numpy as np
    n = np.random.randn(*X.shape)
    return np.cumsum(X + scale * n, axis=0)


def traced_member(*args):
    """Runs in a real pool worker: which worker am I, and the member result."""
    import multiprocessing as mp
    ident = mp.current_process()._identity[0]
    return ident, fid_member(*args)


def traced_inplace(A, i):
    """Runs in a pool worker: mutates its (possibly shared) argument in place."""
    import multiprocessing as mp
    A += (i + 1)
    return mp.current_process()._identity[0], A.copy()


def inplace_member(A, i):
    A += (i + 1)
    return A.copy()


def _args_for(case, emd, x):
    X = x[:, None]
    scaling = X.std() * 0.2
    return [(X, scaling, ii) for ii in range(case['nens'])]


def real_side(cases_json):
    """Executed in a fresh interpreter with the real multiprocessing."""
    import multiprocessing as mp
    import numpy as np
    repo = os.environ.get('VERIF_REPO', '/repo')
    sys.path.insert(0, repo)
    import emd
    assert os.path.realpath(os.path.dirname(emd.__file__)) == os.path.realpath(os.path.join(repo, 'emd'))
    import signals
    out = []
    for case in json.loads(cases_json):
        x = signals.signal(case['family'], case['n'], case['sub'])
        np.random.seed(case['seed'])
        if case['advance']:
            np.random.randn(case['advance'])
        p = mp.get_context('fork').Pool(processes=case['nproc'])
        res = p.starmap(traced_member, _args_for(case, emd, x), chunksize=case['chunksize'])
        p.close()
        p.join()
        rec = {'k': case['k'], 'idents': [r[0] for r in res], 'digests': [_dig(r[1]) for r in res]}
        # second workload: every job receives the same array object and mutates it in place; what a job sees
        # depends on which jobs travelled in the same message (chunk) and ran before it in that worker
        A = np.arange(6, dtype=float)
        p = mp.get_context('fork').Pool(processes=case['nproc'])
        res2 = p.starmap(traced_inplace, [(A, i) for i in range(case['nens'] + 3)], chunksize=case['chunksize'])
        p.close()
        p.join()
        rec['idents2'] = [r[0] for r in res2]
        rec['digests2'] = [_dig(r[1]) for r in res2]
        # third workload: maxtasksperchild=1 - every chunk is run by a freshly forked replacement worker
        np.random.seed(case['seed'])
        p = mp.get_context('fork').Pool(processes=case['nproc'], maxtasksperchild=1)
        res3 = p.starmap(traced_member, _args_for(case, emd, x), chunksize=1)
        p.close()
        p.join()
        rec['digests3'] = [_dig(r[1]) for r in res3]
        out.append(rec)
    print('@@' + json.dumps(out))


def sim_side(args):
    """Executed in a batch worker process with the seams installed."""
    cases_, reals = args
    import numpy as np
    import seams
    import signals
    import world as W
    from chooser import Chooser
    out = []
    for case, real in zip(cases_, reals):
        w = W.World(Chooser(seed=1), prop='fidelity')
        seams.begin_run(w)
        try:
            emd = seams.emd
            x = signals.signal(case['family'], case['n'], case['sub'])
            order = sorted(set(real['idents']))
            w.poolcfg = {'start': 'fork', 'durmodel': 'unit', 'force_assign': [order.index(i) for i in real['idents']]}
            np.random.seed(case['seed'])
            if case['advance']:
                np.random.randn(case['advance'])
            p = emd.sift.mp.Pool(processes=case['nproc'])
            res = p.starmap(fid_member, _args_for(case, emd, x), chunksize=case['chunksize'])
            p.close()
            order2 = sorted(set(real['idents2']))
            w.poolcfg = {'start': 'fork', 'durmodel': 'unit', 'force_assign': [order2.index(i) for i in real['idents2']]}
            A = np.arange(6, dtype=float)
            p = emd.sift.mp.Pool(processes=case['nproc'])
            res2 = p.starmap(inplace_member, [(A, i) for i in range(case['nens'] + 3)], chunksize=case['chunksize'])
            p.close()
            w.poolcfg = {'start': 'fork', 'durmodel': 'uniform'}
            np.random.seed(case['seed'])
            p = emd.sift.mp.Pool(processes=case['nproc'], maxtasksperchild=1)
            res3 = p.starmap(fid_member, _args_for(case, emd, x), chunksize=1)
            p.close()
            out.append({'k': case['k'], 'digests': [_dig(r) for r in res], 'assign': w.batches[0]['assign'],
                        'digests2': [_dig(r) for r in res2], 'digests3': [_dig(r) for r in res3]})
        finally:
            seams.end_run(w)
    return out


def run(nruns, seed, verbose=True):
    import cli
    n = nruns or 24
    cs = cases(n, seed)
    t0 = time.time()
    env = dict(os.environ, PYTHONDONTWRITEBYTECODE='1')
    code = 'import sys; sys.path.insert(0, %r); import fidelity; fidelity.real_side(sys.stdin.read())' % HERE
    pr = subprocess.run([sys.executable, '-B', '-c', code], input=json.dumps(cs), env=env, capture_output=True,
                        text=True, timeout=1800)
    reals = None
    for line in pr.stdout.splitlines():
        if line.startswith('@@'):
            reals = json.loads(line[2:])
    if reals is None:
        print('fidelity: real side failed\n' + pr.stdout[-2000:] + pr.stderr[-3000:], flush=True)
        return 2, {'traces_validated_against_impl': 0, 'mismatches': -1}
    with cli.make_executor(1) as ex:
        sims = ex.submit(sim_side, (cs, reals)).result(timeout=1800)
    bad = 0
    multi = 0
    for case, real, sim in zip(cs, reals, sims):
        same = real['digests'] == sim['digests'] and real['digests2'] == sim['digests2'] and real['digests3'] == sim['digests3']
        nworkers = len(set(real['idents']))
        multi += 1 if nworkers > 1 else 0
        if not same:
            bad += 1
        if verbose or not same:
            print('fidelity case %2d: nens=%d nproc=%d mode=%s chunksize=%s real job->worker %s : %s' % (
                case['k'], case['nens'], case['nproc'], case['mode'], case['chunksize'], real['idents'],
                'bitwise identical' if same else 'MISMATCH'), flush=True)
    dup = sum(1 for r in reals if len(set(r['digests'])) < len(r['digests']))
    print('fidelity: %d real-pool executions replayed in the simulator, %d mismatches; %d used >1 worker; '
          '%d showed duplicated member results on the real pool (%.1fs)' % (len(cs), bad, multi, dup, time.time() - t0), flush=True)
    summary = {'traces_validated_against_impl': len(cs) - bad, 'mismatches': bad, 'multi_worker_cases': multi,
               'real_pool_duplicate_cases': dup,
               'cases': [{'case': c, 'real_job_to_worker': r['idents'], 'identical': r['digests'] == s['digests'] and r['digests2'] == s['digests2'] and r['digests3'] == s['digests3']}
                         for c, r, s in zip(cs, reals, sims)]}
    return (2 if bad else 0), summary


def main(nruns, seed):
    rc, summary = run(nruns, seed)
    edir = os.environ.get('VERIF_EVIDENCE_DIR') or os.path.join(VERIF, 'evidence')
    os.makedirs(edir, exist_ok=True)
    with open(os.path.join(edir, 'selftest_fidelity.json'), 'w') as f:
        json.dump(summary, f, indent=1, sort_keys=True)
    return rc
