"""Confirm a sub-agent's seeded change and run the property's quick check against it.

    /venv/bin/python simverif/seeded_eval.py <worktree> <seed-id> <PROPERTY> [--runs N]

Confirms, in the scratch worktree itself: patch.diff == the worktree's diff; with the change the 33 baseline
tests pass and the demo exits non-zero; with the change reversed the demo exits 0.  Then points the quick
check at the worktree (VERIF_REPO) and records everything in /verif/seeded/<seed-id>/meta.json.
"""
import json
import os
import shutil
import subprocess
import sys
import time
import xml.etree.ElementTree as ET

VERIF = os.path.dirname(os.path.dirname(os.path.abspath(__file__)))


def sh(cmd, cwd=None, env=None, timeout=1800):
    return subprocess.run(cmd, cwd=cwd, env=env, capture_output=True, text=True, timeout=timeout)


def suite(wt):
    base = json.load(open('/root/.vp/BASELINE.json'))['stable_pass']
    xml = os.path.join(wt, '.seeded-junit.xml')
    sh(['/venv/bin/python', '-m', 'pytest', '-q', '-p', 'no:cacheprovider', '--timeout=900',
        '--continue-on-collection-errors', '--junitxml=' + xml], cwd=wt)
    passed = set()
    for tc in ET.parse(xml).getroot().iter('testcase'):
        if not list(tc):
            passed.add('%s::%s' % (tc.get('classname'), tc.get('name')))
    os.remove(xml)
    return [t for t in base if t not in passed]


def main():
    wt, sid, pid = sys.argv[1], sys.argv[2], sys.argv[3]
    runs = None
    if '--runs' in sys.argv:
        runs = sys.argv[sys.argv.index('--runs') + 1]
    sd = os.path.join(wt, 'SEEDED')
    patch = os.path.join(sd, 'patch.diff')
    rec = {'seed_id': sid, 'property': pid, 'ran': []}
    cur = sh(['git', '-C', wt, 'diff', '--', 'emd']).stdout
    rec['patch_matches_worktree'] = (cur.strip() == open(patch).read().strip())
    if not rec['patch_matches_worktree']:
        # restore the worktree to exactly the recorded patch
        sh(['git', '-C', wt, 'checkout', '--', 'emd'])
        r = sh(['git', '-C', wt, 'apply', patch])
        rec['reapplied_patch'] = (r.returncode == 0)
        if r.returncode != 0:
            print('patch does not apply:', r.stderr)
            rec['verdict'] = 'rejected: patch.diff does not apply to HEAD'
            print(json.dumps(rec, indent=1))
            return 1
    files = [l[6:] for l in open(patch).read().splitlines() if l.startswith('+++ b/')]
    rec['files_changed'] = files
    # with the change
    missing = suite(wt)
    rec['baseline_tests_missing_with_change'] = missing
    rec['ran'].append('cd %s && /venv/bin/python -m pytest -q -p no:cacheprovider --timeout=900 --continue-on-collection-errors --junitxml=...' % wt)
    d1 = sh(['/venv/bin/python', 'SEEDED/demo.py'], cwd=wt, timeout=600)
    rec['demo_exit_with_change'] = d1.returncode
    rec['demo_tail_with_change'] = (d1.stdout + d1.stderr)[-600:]
    sh(['git', '-C', wt, 'apply', '-R', patch])
    d0 = sh(['/venv/bin/python', 'SEEDED/demo.py'], cwd=wt, timeout=600)
    rec['demo_exit_without_change'] = d0.returncode
    sh(['git', '-C', wt, 'apply', patch])
    rec['ran'].append('cd %s && /venv/bin/python SEEDED/demo.py  (with the change, and after git apply -R SEEDED/patch.diff)' % wt)
    confirmed = (not missing) and d1.returncode != 0 and d0.returncode == 0
    rec['confirmed'] = confirmed
    # our check against the changed tree
    cmd = [os.path.join(VERIF, 'check'), pid, 'quick'] + (['--runs', runs] if runs else [])
    scratch = os.path.join(wt, '.verif-out')
    env = dict(os.environ, VERIF_REPO=wt, VERIF_EVIDENCE_DIR=os.path.join(scratch, 'evidence'),
               VERIF_REPLAY_DIR=os.path.join(scratch, 'replays'))
    t0 = time.time()
    c = sh(cmd, env=env, timeout=3600)
    rec['check_cmd'] = 'VERIF_REPO=%s %s' % (wt, ' '.join(cmd))
    rec['check_exit'] = c.returncode
    rec['check_wall_s'] = round(time.time() - t0, 1)
    rec['check_violation_lines'] = [l for l in c.stdout.splitlines() if l.startswith('violation: ')][:8]
    rec['check_messages'] = [l.strip() for l in c.stdout.splitlines() if l.startswith('  ')][:8]
    rec['check_summary'] = [l for l in c.stdout.splitlines() if l.startswith(pid + ' quick')]
    rec['detected'] = (c.returncode == 1)
    shutil.rmtree(scratch, ignore_errors=True)
    if confirmed:
        out = os.path.join(VERIF, 'seeded', sid)
        os.makedirs(out, exist_ok=True)
        shutil.copy(patch, os.path.join(out, 'patch.diff'))
        shutil.copy(os.path.join(sd, 'demo.py'), os.path.join(out, 'demo.py'))
        try:
            meta = json.load(open(os.path.join(sd, 'meta.json')))
        except Exception:
            meta = {}
        meta['confirmation'] = rec
        json.dump(meta, open(os.path.join(out, 'meta.json'), 'w'), indent=1)
    print(json.dumps({k: rec[k] for k in ('seed_id', 'property', 'patch_matches_worktree', 'baseline_tests_missing_with_change',
                                          'demo_exit_with_change', 'demo_exit_without_change', 'confirmed',
                                          'check_exit', 'detected', 'check_violation_lines', 'check_summary')}, indent=1))
    return 0


if __name__ == '__main__':
    sys.exit(main())
