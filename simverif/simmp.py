"""In-process model of multiprocessing.Pool with fork / spawn state semantics.

Workers are objects holding a copy of the process state that the properties can depend on
(NumPy / random generator state, identity, logger levels, emd module data globals).  A task
runs the real function on the real arguments after a real pickle round trip, with the
worker's state swapped in.  Which worker takes which chunk, how long it takes, in which order
results complete and whether an idle worker is replaced are decided by the world's Chooser.
"""
import copy
import logging
import os
import math
import pickle
import random
import sys
import types

import numpy as np

import world as W

_REAL = {}          # originals saved by seams.install
CURRENT = [None]    # the active World (set by seams.begin_run)


def cur():
    w = CURRENT[0]
    if w is None:
        raise W.HarnessError('simulated pool used outside a simulated run')
    return w


# ----------------------------------------------------------------------------------------------
# process state

_SKIP_TYPES = (types.ModuleType, types.FunctionType, types.BuiltinFunctionType, type,
               logging.Logger, types.MethodType)


_MODCACHE = []


def _emd_modules():
    if _MODCACHE:
        return _MODCACHE
    out = _MODCACHE
    for name in sorted(sys.modules):
        if (name == 'emd' or name.startswith('emd.')) and not name.startswith('emd.tests'):
            m = sys.modules[name]
            if m is not None:
                out.append(m)
    return out


def _data_globals(include_seams=False):
    """(module, name, value) for every data global of the emd package.  Objects owned by the simulator (pools,
    proxies) are left out of deep snapshots but kept in by-reference ones, so that swapping a worker's state in
    and out never loses a global that holds one of them."""
    out = []
    for m in _emd_modules():
        for k in sorted(vars(m)):
            if k.startswith('__'):
                continue
            v = vars(m)[k]
            if isinstance(v, _SKIP_TYPES) or isinstance(v, np.ufunc):
                continue
            if callable(v) and hasattr(v, '__wrapped__'):
                continue
            if getattr(v, '_simverif_seam', False) and not include_seams:
                continue
            out.append((m, k, v))
    return out


_MUTABLE = (dict, list, set, bytearray, np.ndarray)


def _functions_with_mutable_defaults():
    """Functions of the emd package whose default-argument objects are mutable containers: such an object lives in
    the process that defined it, so a forked worker owns a copy (and a fresh interpreter the pristine value)."""
    seen, out = set(), []

    def visit(f):
        hops = 0
        while f is not None and hops < 8:
            if isinstance(f, types.FunctionType) and id(f) not in seen:
                seen.add(id(f))
                ds = list(f.__defaults__ or ()) + list((f.__kwdefaults__ or {}).values())
                if any(isinstance(d, _MUTABLE) for d in ds) and (f.__module__ or '').startswith('emd'):
                    out.append(f)
            f = getattr(f, '__wrapped__', None)
            hops += 1

    for m in _emd_modules():
        for k, v in list(vars(m).items()):
            visit(v)
            if isinstance(v, type) and (getattr(v, '__module__', '') or '').startswith('emd'):
                for kk, vv in list(vars(v).items()):
                    visit(getattr(vv, '__func__', vv))
    return out


def _capture_defaults(deep):
    out = []
    for f in _functions_with_mutable_defaults():
        d, kd = f.__defaults__, f.__kwdefaults__
        if deep:
            try:
                d, kd = copy.deepcopy(d), copy.deepcopy(kd)
            except Exception:
                continue
        out.append((f, d, kd))
    return out


def _logging_state():
    st = {'disable': logging.root.manager.disable, 'loggers': {}, 'handlers': []}
    for name in sorted(logging.root.manager.loggerDict):
        if name == 'emd' or name.startswith('emd.'):
            lg = logging.root.manager.loggerDict[name]
            if isinstance(lg, logging.Logger):
                st['loggers'][name] = (lg.level, lg.disabled, lg.propagate)
    for h in logging.getLogger('emd').handlers:
        st['handlers'].append((h, h.level))
    return st


def _restore_logging(st):
    logging.disable(st['disable'])
    for name, (lvl, dis, prop) in st['loggers'].items():
        lg = logging.getLogger(name)
        if lg.level != lvl:
            lg.setLevel(lvl)
        lg.disabled = dis
        lg.propagate = prop
    for h, lvl in st['handlers']:
        h.level = lvl


class ProcState:
    """Snapshot of the process-local state a forked child would own."""

    def __init__(self, np_state, py_state, log_state, globs, environ=None):
        self.np_state = np_state
        self.py_state = py_state
        self.log_state = log_state
        self.globs = globs            # [(module, name, value)]
        self.environ = environ        # a forked child has its own copy of the environment

    @classmethod
    def capture(cls, deep):
        globs = []
        for m, k, v in _data_globals(include_seams=not deep):
            if deep:
                try:
                    v = copy.deepcopy(v)
                except Exception:
                    continue
            globs.append((m, k, v))
        st = cls(np.random.get_state(), random.getstate(), _logging_state(), globs, dict(os.environ))
        st.fdefaults = _capture_defaults(deep)
        return st

    def install(self):
        np.random.set_state(self.np_state)
        random.setstate(self.py_state)
        _restore_logging(self.log_state)
        for m, k, v in self.globs:
            setattr(m, k, v)
        for f, d, kd in getattr(self, 'fdefaults', ()):
            f.__defaults__ = d
            f.__kwdefaults__ = kd
        if self.environ is not None and dict(os.environ) != self.environ:
            for k in list(os.environ):
                if k not in self.environ:
                    del os.environ[k]
            for k, v in self.environ.items():
                if os.environ.get(k) != v:
                    os.environ[k] = v


def _np_state_from_seed(seed):
    saved, CURRENT[0] = CURRENT[0], None
    try:
        return np.random.RandomState(seed).get_state()
    finally:
        CURRENT[0] = saved


class SimProcess:
    """Stands for multiprocessing.current_process() inside a worker."""

    def __init__(self, ident, pid, name, state):
        self._identity = (ident,)
        self.pid = pid
        self.name = name
        self.daemon = True
        self.state = state
        self.free_at = 0.0
        self.tasks_done = 0
        self.chunks_done = 0
        self.slow = 1
        self.exitcode = None
        self._config = {'authkey': b'sim', 'semprefix': '/mp', 'daemon': True}
        self._parent_pid = W.PARENT_PID

    @property
    def ident(self):
        return self.pid

    def is_alive(self):
        return True

    def __repr__(self):
        return '<SimProcess %s pid=%d>' % (self.name, self.pid)


# ----------------------------------------------------------------------------------------------
# results


class SimAsyncResult:
    """Result of an asynchronous submission.  The job has already been executed (workers cannot observe each
    other, so executing at submission is a legal schedule), but it only becomes *visible* to the parent when the
    simulated clock reaches its completion time: ready(), wait(timeout) and get(timeout) are time-aware."""

    def __init__(self, ok, value, done_at=0.0, world=None):
        self._ok = ok
        self._value = value
        self._done_at = done_at
        self._w = world

    def ready(self):
        return self._w is None or self._w.now >= self._done_at - 1e-12

    def successful(self):
        if not self.ready():
            raise ValueError('%r not ready' % (self,))
        return self._ok

    def wait(self, timeout=None):
        w = self._w
        if w is None or self.ready():
            return None
        if timeout is None:
            w.now = self._done_at
        else:
            w.now = min(self._done_at, w.now + max(0.0, float(timeout)))
            if not self.ready():
                w.probe('async_wait_timed_out')
        return None

    def get(self, timeout=None):
        self.wait(timeout)
        if not self.ready():
            import multiprocessing
            raise multiprocessing.TimeoutError
        if self._ok:
            return self._value
        raise self._value


def _real_mp():
    return _REAL.get('multiprocessing') or __import__('multiprocessing')


class SimPool:
    _simverif_seam = True

    def __init__(self, processes=None, initializer=None, initargs=(), maxtasksperchild=None,
                 context=None, _start=None):
        w = cur()
        if w.cur_proc is not None:
            # daemonic processes are not allowed to have children
            raise AssertionError('daemonic processes are not allowed to have children')
        if processes is None:
            processes = 4
        if processes < 1:
            raise ValueError("Number of processes must be at least 1")
        if maxtasksperchild is not None:
            if not isinstance(maxtasksperchild, int) or maxtasksperchild <= 0:
                raise ValueError("maxtasksperchild must be a positive int or None")
        if initializer is not None and not callable(initializer):
            raise TypeError('initializer must be a callable')
        self.w = w
        cfg = w.poolcfg
        start = _start
        if start is None and context is not None:
            start = getattr(context, '_name', None)
        if start not in ('fork', 'spawn', 'forkserver'):
            start = cfg.get('start', 'fork')
        self.start = 'spawn' if start in ('spawn', 'forkserver') else 'fork'
        self.nproc = int(processes)
        self.initializer = initializer
        self.initargs = initargs
        self.maxtasks = maxtasksperchild
        self.state = 'RUN'
        self.id = len(w.pools)
        w.pools.append(self)
        self.workers = []
        w.log('pool.create', pool=self.id, n=self.nproc, start=self.start)
        lat = cfg.get('latency', False) and self.nproc > 1
        for i in range(self.nproc):
            p = self._spawn_worker()
            if lat:
                p.free_at = w.now + 0.001 * w.ch.pick('sched.latency', 4)
            self.workers.append(p)
        slow = cfg.get('slow_worker', False)
        if slow:
            k = w.ch.pick('sched.slow_worker', self.nproc) if self.nproc > 1 else 0
            self.workers[k].slow = 50
            w.fault('slow_worker', pool=self.id, worker=k)

    # -- workers ------------------------------------------------------------
    def _spawn_worker(self):
        w = self.w
        ident = w.next_ident
        w.next_ident += 1
        pid = W.PARENT_PID + ident
        name = ('ForkPoolWorker-%d' if self.start == 'fork' else 'SpawnPoolWorker-%d') % ident
        if self.start == 'fork':
            st = ProcState.capture(deep=True)
        else:
            # pristine interpreter: module data globals as at import, entropy-seeded generators
            st = ProcState.capture(deep=True)
            st.globs = [(m, k, copy.deepcopy(v)) for (m, k, v) in _PRISTINE_GLOBALS
                        if _try_deepcopy(v)]
            st.fdefaults = [(f, copy.deepcopy(d), copy.deepcopy(kd)) for f, d, kd in _PRISTINE_DEFAULTS]
            st.np_state = _np_state_from_seed(w.entropy(32))
            st.py_state = random.Random(w.entropy(64)).getstate()
            st.log_state = _PRISTINE_LOGGING[0] or st.log_state
        p = SimProcess(ident, pid, name, st)
        p.free_at = w.now
        w.log('pool.worker', pool=self.id, ident=ident, start=self.start)
        if self.initializer is not None:
            # the child sees the initializer arguments as they are at this moment: a memory snapshot under fork,
            # a pickled copy under spawn - never the parent's live objects
            try:
                if self.start == 'fork':
                    args = copy.deepcopy(self.initargs)
                else:
                    args = pickle.loads(pickle.dumps(self.initargs, protocol=pickle.HIGHEST_PROTOCOL))
            except Exception:
                args = self.initargs
            self._in_worker(p, lambda: self.initializer(*args))
        return p

    def _in_worker(self, p, thunk):
        """Run thunk with worker p's process state swapped in."""
        w = self.w
        mp = _real_mp()
        parent_state = ProcState.capture(deep=False)
        saved = (w.cur_pid, w.cur_proc, mp.process._current_process)
        p.state.install()
        w.cur_pid, w.cur_proc = p.pid, p
        mp.process._current_process = p
        try:
            return thunk()
        finally:
            p.state = ProcState.capture(deep=False)
            w.cur_pid, w.cur_proc, mp.process._current_process = saved
            parent_state.install()

    # -- scheduling ---------------------------------------------------------
    def _check_running(self):
        if self.state != 'RUN':
            raise ValueError("Pool not running")

    def _duration(self, worker, ntasks):
        w = self.w
        model = w.poolcfg.get('durmodel', 'unit')
        if model == 'unit':
            d = 1
        elif model == 'uniform':
            d = 1 + w.ch.pick('sched.dur', 4)
        elif model == 'bimodal':
            d = 1 if w.ch.pick('sched.dur', 2) == 0 else 20
        elif model == 'zero':
            d = 0
        else:
            d = 1
        return 0.01 * d * worker.slow * max(1, ntasks)

    def _maybe_respawn(self):
        w = self.w
        if not w.poolcfg.get('respawn', False):
            return
        if w.ch.weighted('fault.respawn', [5, 1]) == 0:
            return
        k = w.ch.pick('fault.respawn.which', len(self.workers))
        old = self.workers[k]
        new = self._spawn_worker()
        new.free_at = max(old.free_at, w.now)
        new.slow = old.slow
        self.workers[k] = new
        w.fault('respawn', pool=self.id, old=old._identity[0], new=new._identity[0],
                old_tasks=old.tasks_done)
        if old.tasks_done > 0:
            w.probe('respawn_after_work')

    def _run_batch(self, func, tasks, chunksize, star, kind, lazy=False, block=True):
        """Execute tasks; return (results in input order as (ok, value), completion order, completion times).

        tasks is a list (map / starmap: every argument exists before anything is pickled) or, with lazy=True, an
        iterator consumed one chunk at a time (imap: a chunk is pickled before the next one is generated)."""
        w = self.w
        self._check_running()
        if w.cur_proc is not None:
            raise W.HarnessError('nested pool use inside a worker')
        nw = len(self.workers)
        if not lazy:
            tasks = list(tasks)
            n = len(tasks)
            if chunksize is None:
                chunksize, extra = divmod(n, nw * 4)
                if extra:
                    chunksize += 1
            if n == 0:
                chunksize = 0
            it = iter(tasks)
        else:
            n = None
            it = iter(tasks)
            if chunksize is None or chunksize < 1:
                chunksize = 1
        batch = {'pool': self.id, 'id': len(w.batches), 'kind': kind, 'func': func, 'n': n or 0,
                 'chunksize': chunksize, 'assign': [], 'order': [], 'tasks': [],
                 'start': self.start, 'nproc': nw, 'respawns': [], 'seq': w.seq, 'done_at': []}
        w.batches.append(batch)
        w.log('pool.batch', pool=self.id, batch=batch['id'], kind=kind, n=n, chunksize=chunksize,
              func=getattr(func, '__name__', None) or W.canon(func))
        results = []
        completions = []   # (time, dispatch_no, chunk)
        t0 = w.now
        cno = -1
        nxt = 0
        import itertools
        while chunksize:
            args_list = list(itertools.islice(it, chunksize))
            if not args_list:
                break
            cno += 1
            chunk = list(range(nxt, nxt + len(args_list)))
            nxt += len(args_list)
            for _ in chunk:
                batch['assign'].append(None)
                batch['tasks'].append(None)
                batch['done_at'].append(None)
                results.append(None)
            nresp = w.faults.get('respawn', 0)
            self._maybe_respawn()
            if w.faults.get('respawn', 0) != nresp:
                batch['respawns'].append(cno)
            # the earliest-free worker dequeues the next chunk
            tmin = min(p.free_at for p in self.workers)
            cands = [i for i, p in enumerate(self.workers) if p.free_at <= tmin + 1e-12]
            wi = cands[w.ch.pick('sched.tie', len(cands))] if len(cands) > 1 else cands[0]
            forced = w.poolcfg.get('force_assign')
            if forced is not None:
                # fidelity self-test: replay the job->worker assignment observed on the real pool
                wi = forced[chunk[0]]
                if any(forced[ti] != wi for ti in chunk):
                    raise W.HarnessError('forced assignment splits a chunk')
            p = self.workers[wi]
            start_t = max(p.free_at, t0)
            if block:
                w.now = max(w.now, start_t)
            w.log('pool.dispatch', pool=self.id, batch=batch['id'], chunk=cno, worker=p._identity[0],
                  tasks=chunk)
            for ti in chunk:
                batch['assign'][ti] = p._identity[0]
            # one message per chunk, as in the real pool: objects shared between the jobs of a chunk (the same
            # array in every argument tuple) stay shared after unpickling in the worker
            outs = self._exec_chunk(p, func, args_list, star, batch['id'], chunk)
            failed = None
            for ti, (ok, val, rec) in zip(chunk, outs):
                batch['tasks'][ti] = rec
                if ok:
                    results[ti] = (True, val)
                else:
                    failed = val
                p.tasks_done += 1
            p.chunks_done += 1          # maxtasksperchild counts messages (chunks), as multiprocessing.pool.worker does
            if failed is not None:
                # mapstar: the first exception aborts the rest of the chunk and is the chunk's result
                for tj in chunk:
                    results[tj] = (False, failed)
            dur = self._duration(p, len(chunk))
            p.free_at = start_t + dur
            for ti in chunk:
                batch['done_at'][ti] = p.free_at
            completions.append((p.free_at, cno, chunk))
            if self.maxtasks is not None and p.chunks_done >= self.maxtasks:
                new = self._spawn_worker()
                new.free_at = p.free_at
                new.slow = p.slow
                self.workers[wi] = new
        batch['n'] = nxt
        completions.sort(key=lambda c: (c[0], c[1]))
        for (t, cno_, chunk) in completions:
            batch['order'].extend(chunk)
        if completions and block:
            w.now = max(w.now, completions[-1][0])
        w.log('pool.done', pool=self.id, batch=batch['id'], assign=batch['assign'],
              order=batch['order'])
        return results, batch['order'], batch['done_at']

    def _exec_chunk(self, p, func, args, star, bid, indices):
        """Run the jobs of one chunk in worker p.  Returns [(ok, value, record)] for the jobs that ran."""
        w = self.w
        payload = pickle.dumps((func, args), protocol=pickle.HIGHEST_PROTOCOL)
        recs = [{'worker': p._identity[0], 'pid': p.pid, 'index': ti, 'batch': bid} for ti in indices]

        def thunk():
            f, alist = pickle.loads(payload)
            out = []
            for rec, a, ti in zip(recs, alist, indices):
                rec['args'] = a
                w.cur_task = (bid, ti)
                try:
                    try:
                        r = f(*a) if star else f(a)
                        ok = True
                    except Exception as e:   # transported to the parent like a real pool does
                        _harness_guard(e)
                        r, ok = e, False
                finally:
                    w.cur_task = None
                out.append((ok, r))
                if not ok:
                    break
            try:
                rb = pickle.dumps(out, protocol=pickle.HIGHEST_PROTOCOL)
            except Exception as e:
                from multiprocessing.pool import MaybeEncodingError
                out = [(False, MaybeEncodingError(e, out[-1][1] if out else None))]
                rb = pickle.dumps(out)
            return rb

        rb = self._in_worker(p, thunk)
        vals = pickle.loads(rb)
        res = []
        for rec, (ok, val) in zip(recs, vals):
            if not ok:
                try:
                    val._sim_transported = True
                except Exception:
                    pass
            rec['ok'] = ok
            rec['result'] = val
            w.log('pool.task', batch=bid, index=rec['index'], worker=p._identity[0], ok=ok,
                  result=val if ok else repr(val)[:80])
            res.append((ok, val, rec))
        return res

    @staticmethod
    def _first_failure(results, order):
        for ti in order:
            ok, val = results[ti]
            if not ok:
                return val
        return None

    # -- public API ---------------------------------------------------------
    def starmap(self, func, iterable, chunksize=None):
        tasks = [tuple(a) for a in iterable]
        results, order, _ = self._run_batch(func, tasks, chunksize, True, 'starmap')
        err = self._first_failure(results, order)
        if err is not None:
            raise err
        return [v for _, v in results]

    def map(self, func, iterable, chunksize=None):
        tasks = list(iterable)
        results, order, _ = self._run_batch(func, tasks, chunksize, False, 'map')
        err = self._first_failure(results, order)
        if err is not None:
            raise err
        return [v for _, v in results]

    def starmap_async(self, func, iterable, chunksize=None, callback=None, error_callback=None):
        tasks = [tuple(a) for a in iterable]
        results, order, done = self._run_batch(func, tasks, chunksize, True, 'starmap_async', block=False)
        return self._async_result(results, order, done, callback, error_callback)

    def map_async(self, func, iterable, chunksize=None, callback=None, error_callback=None):
        tasks = list(iterable)
        results, order, done = self._run_batch(func, tasks, chunksize, False, 'map_async', block=False)
        return self._async_result(results, order, done, callback, error_callback)

    def _async_result(self, results, order, done, callback, error_callback):
        when = max(done) if done else self.w.now
        err = self._first_failure(results, order)
        if err is not None:
            if error_callback is not None:
                error_callback(err)
            return SimAsyncResult(False, err, when, self.w)
        vals = [v for _, v in results]
        if callback is not None:
            callback(vals)
        return SimAsyncResult(True, vals, when, self.w)

    def imap(self, func, iterable, chunksize=1):
        results, order, done = self._run_batch(func, iterable, chunksize, False, 'imap', lazy=True)

        def gen():
            for ok, v in results:
                if not ok:
                    raise v
                yield v
        return gen()

    def imap_unordered(self, func, iterable, chunksize=1):
        results, order, done = self._run_batch(func, iterable, chunksize, False, 'imap_unordered', lazy=True)
        if order != sorted(order):
            self.w.probe('unordered_differs')

        def gen():
            for ti in order:
                ok, v = results[ti]
                if not ok:
                    raise v
                yield v
        return gen()

    def apply(self, func, args=(), kwds={}):
        return self.apply_async(func, args, kwds).get()

    def apply_async(self, func, args=(), kwds={}, callback=None, error_callback=None):
        import functools
        f = functools.partial(func, **kwds) if kwds else func
        results, order, done = self._run_batch(f, [tuple(args)], 1, True, 'apply', block=False)
        ok, v = results[0]
        if ok and callback is not None:
            callback(v)
        if not ok and error_callback is not None:
            error_callback(v)
        return SimAsyncResult(ok, v, done[0], self.w)

    # attributes of the real class that code sometimes reads
    @property
    def _pool(self):
        return list(self.workers)

    @property
    def _processes(self):
        return self.nproc

    def close(self):
        if self.state == 'RUN':
            self.state = 'CLOSE'
            self.w.log('pool.close', pool=self.id)

    def terminate(self):
        self.state = 'TERMINATE'
        self.w.log('pool.terminate', pool=self.id)

    def join(self):
        if self.state == 'RUN':
            raise ValueError("Pool is still running")
        if self.state == 'CLOSE' and self.workers:
            # waits for every outstanding job: the clock moves to the moment the last worker becomes free
            self.w.now = max(self.w.now, max(p.free_at for p in self.workers))

    def __enter__(self):
        self._check_running()
        return self

    def __exit__(self, *a):
        self.terminate()

    def __reduce__(self):
        raise NotImplementedError('pool objects cannot be passed between processes or pickled')


_HERE = __import__('os').path.dirname(__import__('os').path.abspath(__file__))


def _harness_guard(e):
    """An exception whose innermost frame is harness code must not be transported as if emd raised it."""
    if isinstance(e, W.InjectedFault) or getattr(e, '_sim_transported', False):
        return
    if isinstance(e, W.HarnessError):
        raise e
    tb, last = e.__traceback__, None
    while tb is not None:
        last, tb = tb, tb.tb_next
    if last is not None and last.tb_frame.f_code.co_filename.startswith(_HERE):
        raise W.HarnessError('exception raised inside harness code (worker): %r' % (e,)) from e


def _try_deepcopy(v):
    try:
        copy.deepcopy(v)
        return True
    except Exception:
        return False


_PRISTINE_GLOBALS = []
_PRISTINE_LOGGING = [None]


_PRISTINE_DEFAULTS = []


def remember_pristine():
    """Called once right after importing emd: what a spawned interpreter would start from."""
    del _PRISTINE_DEFAULTS[:]
    _PRISTINE_DEFAULTS.extend(_capture_defaults(True))
    del _PRISTINE_GLOBALS[:]
    for m, k, v in _data_globals():
        try:
            _PRISTINE_GLOBALS.append((m, k, copy.deepcopy(v)))
        except Exception:
            pass


def reset_globals_to_pristine():
    """Start of every run: module data globals of emd are put back to their import-time values, so that
    nothing an (edited) tree keeps at module level leaks from one simulated run into the next."""
    for m, k, v in _PRISTINE_GLOBALS:
        try:
            setattr(m, k, copy.deepcopy(v))
        except Exception:
            pass
    for f, d, kd in _PRISTINE_DEFAULTS:
        try:
            f.__defaults__, f.__kwdefaults__ = copy.deepcopy(d), copy.deepcopy(kd)
        except Exception:
            pass
    # memoised functions (functools.lru_cache / cache) keep state across calls: start every run cold
    for m in _emd_modules():
        for k, v in list(vars(m).items()):
            _clear_caches(v)
            if isinstance(v, type) and getattr(v, '__module__', '').startswith('emd'):
                for kk, vv in list(vars(v).items()):
                    _clear_caches(getattr(vv, '__func__', vv))


def _clear_caches(v):
    cc = getattr(v, 'cache_clear', None)
    if callable(cc) and not isinstance(v, type):
        try:
            cc()
        except Exception:
            pass
    inner = getattr(v, '__wrapped__', None)
    if inner is not None and inner is not v and callable(getattr(inner, 'cache_clear', None)):
        try:
            inner.cache_clear()
        except Exception:
            pass


def remember_pristine_logging():
    _PRISTINE_LOGGING[0] = _logging_state()


# ----------------------------------------------------------------------------------------------
# what `multiprocessing` looks like to the code under test


class SimContext:
    _simverif_seam = True

    def __init__(self, method):
        self._name = method

    def Pool(self, processes=None, initializer=None, initargs=(), maxtasksperchild=None):
        return SimPool(processes, initializer, initargs, maxtasksperchild, _start=self._name)

    def get_start_method(self, allow_none=False):
        return self._name

    def cpu_count(self):
        return 4

    def Process(self, *a, **k):
        raise W.SimEscape('Process() creation through a context')

    def __getattr__(self, name):
        return getattr(_real_mp().get_context(self._name), name)


class SimMP:
    """Module-like object bound to emd.sift.mp."""
    _simverif_seam = True
    __name__ = 'multiprocessing'

    def Pool(self, processes=None, initializer=None, initargs=(), maxtasksperchild=None):
        return SimPool(processes, initializer, initargs, maxtasksperchild)

    def current_process(self):
        w = CURRENT[0]
        if w is not None and w.cur_proc is not None:
            return w.cur_proc
        return _real_mp().process._current_process

    def cpu_count(self):
        return 4

    def get_context(self, method=None):
        if method is None:
            method = cur().poolcfg.get('start', 'fork')
        return SimContext(method)

    def get_start_method(self, allow_none=False):
        w = CURRENT[0]
        return w.poolcfg.get('start', 'fork') if w is not None else 'fork'

    def set_start_method(self, method, force=False):
        cur().poolcfg['start'] = method

    def Process(self, *a, **k):
        raise W.SimEscape('multiprocessing.Process() creation')

    def __getattr__(self, name):
        return getattr(_real_mp(), name)


class SimExecutor:
    """concurrent.futures.ProcessPoolExecutor look-alike on top of SimPool."""
    _simverif_seam = True

    def __init__(self, max_workers=None, mp_context=None, initializer=None, initargs=(), **kw):
        start = getattr(mp_context, '_name', None)
        self._pool = SimPool(max_workers, initializer, initargs, _start=start)

    def submit(self, fn, *args, **kwargs):
        import concurrent.futures as cf
        fut = cf.Future()
        r = self._pool.apply_async(fn, args, kwargs)
        if r.successful():
            fut.set_result(r._value)
        else:
            fut.set_exception(r._value)
        return fut

    def map(self, fn, *iterables, timeout=None, chunksize=1):
        return iter(self._pool.starmap(fn, list(zip(*iterables)), chunksize))

    def shutdown(self, wait=True, cancel_futures=False):
        self._pool.close()

    def __enter__(self):
        return self

    def __exit__(self, *a):
        self.shutdown()
        return False
