"""Writes /verif/MANIFEST.json from one table (kept in code so that it stays consistent)."""
import json
import os

VERIF = os.path.dirname(os.path.dirname(os.path.abspath(__file__)))

CHECKS = {
    'C06': dict(
        text='Seeded exploration: thousands of simulated top-level sift calls per run over variant x option grid x '
             'delivery route x pool schedule; the history of stage entries (including those inside simulated worker '
             'processes, after a real pickle round trip) is checked against the options the caller supplied; inside the stages the '
             'np.pad / interpolator / stop-rule calls must be the ones the options select, and a sample of recorded '
             'single-IMF extractions is recomputed by a reference pipeline. A clean batch is evidence, not proof.',
        note='Trusted: the SimPool process model (validated against the real pool by the fidelity self-test), '
             'inspect.signature binding of stage calls, stage functions being reached through their emd.sift module '
             'names.',
        technique='deterministic simulation (simulated worker pool + stage-entry history check over seeded schedules)',
        ref='4.1'),
    'C07': dict(
        text='Seeded exploration of masked sifts under the simulated pool: mask definition, worker computation, '
             'recombination order, frequency ladder, amplitude rule and zero-amplitude identity are checked on the '
             'recorded pool history, and every scheduled execution (1..8 workers, fork/spawn, stalls, respawns, '
             'completion orders) is compared bitwise with a single-worker reference execution.',
        note='Trusted: SimPool model (fidelity self-test), NumPy arithmetic; masks compared to 1e-12, recombination to '
             '1e-12 relative, schedule independence bitwise.',
        technique='deterministic simulation (seeded pool schedules + fault injection, history oracle, reference execution)',
        ref='4.2'),
    'C08': dict(
        text='Seeded exploration of ensemble and complete-ensemble sifts under a simulated fork/spawn worker pool: '
             'job->worker assignment, completion order, worker respawn and the parent generator history are drawn from '
             'one seed; the recorded per-member noisy inputs must be pairwise bitwise distinct and uncorrelated, flip '
             'members must be the mean of +noise/-noise sifts, the output the per-IMF mean of the recorded member '
             'results, and zero noise must reduce to the classic sift.',
        note='Trusted: SimPool fork/spawn state model (validated against the real multiprocessing pool by the fidelity '
             'self-test), bitwise inequality of independent continuous draws.',
        technique='deterministic simulation (seeded job-to-worker schedules, fork-state model, respawn faults, history oracle)',
        ref='4.3'),
    'C15': dict(
        text='Seeded stateful simulation: random operation histories (metrics in both modes, additions, timings, '
             'subset picks with all comparators and literal forms, chain timings, table exports) with injected '
             'callback failures are applied to a cache-on and a cache-off container and to a small reference model; '
             'all three are compared after every operation, and every earlier query is re-asked after every step.',
        note='Trusted: the container\'s own cycle vector as the definition of a cycle\'s samples; pandas for the table '
             'comparison.',
        technique='deterministic simulation (seeded operation histories + callback-fault injection vs reference model, cache on/off lockstep)',
        ref='4.4'),
    'C18': dict(
        text='Seeded stateful simulation of SiftConfig against a nested-dictionary model, with both YAML routes going '
             'through a simulated disk that injects open/write/flush/close/read errors and torn writes; behavioural '
             'equivalence of config-driven, partial-driven, reloaded and plain calls is checked bitwise.',
        note='Trusted: PyYAML, the SimDisk buffered-write model; only acknowledged saves carry obligations.',
        technique='deterministic simulation (seeded edit/persist histories + disk-fault injection vs reference model)',
        ref='4.5'),
    'C20': dict(
        text='Seeded stateful simulation of the process-global logger against a three-field model, from the never-set-up '
             'and the set-up state, with sift-variant calls that return or raise (invalid input, convergence error, or an '
             'injected fault at an arbitrary stage entry) under every verbosity override, plus log-sink failures; results '
             'are compared bitwise with the same call in a pristine logger state.',
        note='Trusted: the stdlib logging module; pool variants run under SimPool with a fixed schedule.',
        technique='deterministic simulation (seeded call/raise histories + fault injection at stage entries vs reference model)',
        ref='4.6'),
}

NA = {
    'C01': 'Pure function of (signal, options): sift() is a sequential numeric loop with no pool, clock, generator, file or shared state; there is no schedule, fault or history to simulate - only inputs, which is property-based testing, a different technique.',
    'C02': 'Algebraic symmetry (scaling/reversal) of the same pure function; no nondeterminism, I/O or interleaving is involved. The masked variant\'s only schedule dependence is decided by C07.',
    'C03': 'Relates two deterministic calls (capped vs uncapped) and bounds a column count; a per-call input/output relation with no schedule, clock or fault in it.',
    'C04': 'Termination of a pure bounded loop (get_next_imf): nothing blocks, times out, retries or can be starved by a scheduler, so bounded-liveness-under-faults has no subject.',
    'C05': 'Extrema detection, padding and spline evaluation are pure array functions of their arguments.',
    'C09': 'Pure numeric transforms (phase/frequency/amplitude) of their argument; no seam for a simulator.',
    'C10': 'Pure histogramming of its inputs; no concurrency, time or I/O. (In this environment hilberthuang also fails in ensure_equal_dims on np.alltrue, removed in NumPy 2 - noted, not decided here.)',
    'C11': 'Pure joint histogramming of its inputs; no concurrency, time or I/O.',
    'C12': 'Pure function of a phase array (cycle labelling); no schedule, fault or history.',
    'C13': 'Pure predicate over a phase segment; no schedule, fault or history.',
    'C14': 'Pure per-cycle statistics / interpolation of arrays; no schedule, fault or history.',
    'C16': 'Pure index arithmetic between label vectors; exhausting small structures would be enumeration (model checking), a different family.',
    'C17': 'Pure function of two arrays (deterministic KD-tree matching); no schedule, fault or history.',
    'C19': 'Per-call input/output relations (layout acceptance, rejection, non-mutation, repeatability). Across the one process boundary that exists arguments travel by pickle, and repeatability of pool-using routines under different schedules is exactly what C07 (item 6) decides.',
}


def main():
    base = ('cd /repo && /venv/bin/python -m pytest -ra -q -p no:cacheprovider --timeout=900 '
            '--continue-on-collection-errors')
    checks = []
    for pid in sorted(CHECKS):
        if not os.path.exists(os.path.join(VERIF, 'simverif', 'props', pid.lower() + '.py')):
            continue
        c = CHECKS[pid]
        checks.append({
            'property_id': pid,
            'quick_cmd': './check %s quick' % pid,
            'thorough_cmd': './check %s thorough' % pid,
            'evidence_file': 'evidence/%s.json' % pid,
            'replay_cmd_template': './check %s --replay {path}' % pid,
            'engine': 'simverif',
            'level_claimed': {'category': 'exploration', 'text': c['text'], 'design_ref': 'DESIGN.md section ' + c['ref']},
            'level_note': c['note'],
            'technique': c['technique'],
        })
    na = [{'property_id': k, 'reason': v} for k, v in sorted(NA.items())]
    for pid in sorted(CHECKS):
        if pid not in [c['property_id'] for c in checks]:
            na.append({'property_id': pid, 'reason': 'simulation target (see DESIGN.md); its check is not built yet, so nothing is claimed for it at this commit'})
    man = {
        'version': 1,
        'setup_cmd': './check selftest env',
        'hooks': {
            'guard': 'EMD_VERIF_SIM (reserved; no source hooks exist: every seam is taken by rebinding module attributes at run time)',
            'enable': 'nothing to enable: ./check imports emd from /repo\'s working tree and installs its seams in-process',
            'baseline_off_cmd': base,
            'source_commits': [],
            'add_only': True,
        },
        'engines': [{'name': 'simverif', 'path': 'simverif/', 'serves_properties': [c['property_id'] for c in checks],
                     'kind_free_text': 'deterministic simulator: seeded decision stream, in-process fork/spawn worker-pool model, '
                                       'simulated clock/entropy/disk/log sink, fault injection, choice-sequence shrinker, exact replay'}],
        'checks': checks,
        'not_applicable': sorted(na, key=lambda d: d['property_id']),
        'notes': 'VERIF_SEED selects the explored set; VERIF_BUDGET_S caps wall-clock of a batch; exit 2 = harness error. '
                 'Known findings: known_findings.json. Replay files: replays/ (generated) and findings/ (kept).',
    }
    with open(os.path.join(VERIF, 'MANIFEST.json'), 'w') as f:
        json.dump(man, f, indent=1)
    print('MANIFEST.json: %d checks, %d not applicable' % (len(checks), len(na)))


if __name__ == '__main__':
    main()
